import random, sys, os
sys.path.insert(0, os.path.join(os.path.dirname(os.path.abspath(__file__)), "..", "harness"))
import core
from astlib import *
from cases import *
import runner

def universe():
    ax, ay = pred("ge", var("x"), const(0)), pred("le", bi("sub", var("y"), var("x")), const(1))
    az = pred("ne", un("abs", var("x")), un("neg", const(2)))
    F = [ax, ay, az, bi("add", var("x"), bi("mul", var("y"), const(2)))]
    for a in (ax, ay):
        for op in ["not", "rise", "fall", "prev", "sprev", "next", "snext", "once", "hist", "ev", "alw"]:
            F.append(un(op, a))
        for op in UN_TIMED:
            for iv in [(0, 0), (0, 1), (1, 2), (2, 2), (0, 3)]:
                F.append(un(op, a, *iv))
    for op in ["and", "or", "implies", "iff", "xor", "since", "until"]:
        F.append(bi(op, ax, ay))
    for op in ["sinceT", "untilT"]:
        for iv in [(0, 0), (0, 1), (1, 2), (2, 2), (0, 3)]:
            F.append(bi(op, ax, ay, *iv))
    F += [un("alw", bi("implies", ax, un("evT", ay, 0, 2))), bi("until", un("once", ax), un("next", ay)),
          un("hist", bi("sinceT", ay, un("prev", ax), 1, 2)), un("evT", un("alwT", az, 1, 1), 0, 1)]
    return F


def main():
    rep = core.Report("C01")
    import semmc, mc
    quick = core.tier() == "quick"
    F = universe()
    r = semmc.run("C01_pointwise", forms=F, maxlen=3 if quick else 5, invariants=["PointwiseEq", "OfflineRefines"])
    rep.add_mc("Sig = pointwise README definition RhoPt, and the offline list algorithms (Offline!OffEval) = Sig: %d formulas x all traces" % len(F), r)
    if r["violated"]:
        rep.mc_violation("C01_pointwise", r)
    r = mc.rtamt_mc("C01_offline", F[::3], [mc.std_cfg(["x", "y"])], maxlen=3, mode="offline", invariants=["InvC01", "InvC13"], properties=["ActC16"])
    rep.add_mc("offline machine: one value per sample, counter, stability under extension", r)
    if r["violated"]:
        rep.mc_violation("C01_offline", r)
    # (B) specification -> code: offline behaviours (Parse, Extend*) simulated by TLC, replayed as evaluate() on every prefix
    import behaviours
    bres, behs = behaviours.simulate("C01_sim", F, ["x", "y"], num=(40 if quick else 400), depth=(6 if quick else 8), seed=core.seed(), mode="offline")
    rep.add_mc("TLC simulation of Rtamt.tla (Parse/Extend): offline behaviours generated for replay", bres, exhaustive=False)
    if bres["violated"]:
        rep.mc_violation("C01_sim", bres)
    bcases = behaviours.to_cases(behs, ["x", "y"])
    btr = runner.run_cases(bcases)
    bvs, bgen, bdist = core.validate("C01_sim_replay", btr)
    rep.add_traces(btr, bvs, bgen, bdist, nontrivial_key=lambda c: c["objs"][0]["text"] + str(c["events"][-1].get("w")))
    rep.extra["tlc_behaviours_replayed"] = len(bcases)
    rng = random.Random(core.seed() * 7919 + 1)
    n = 600 if core.tier() == "quick" else 20000
    cases = []
    for i in range(n):
        S = rng.choice([1, 1, 2, 4])
        g = Gen(rng, vars_=rng.choice([("x",), ("x", "y"), ("x", "y", "z")]), S=S,
                arith=("add", "sub", "abs", "neg") + (("mul", "div", "sqrt", "pow") if S == 1 else ("div",)))
        if rng.random() < 0.3:
            g.funcs = 0.4         # sqrt exp ln log pow at exact points (also over temporal terms: the padding reaches the function)
            g.tterm = rng.choice([0.0, 0.25])
            g.tterm_ops = ["prev", "sprev", "once", "hist", "onceT", "histT", "next", "evT", "alwT", "ev", "alw"]
        phi = g.formula(rng.choice([1, 2, 2, 3, 3, 4]))
        kind = rng.random()
        if kind >= 0.75 and rng.random() < 0.5:
            # a bounded binary or unary operator whose window begins after the current sample, on top
            a_ = rng.choice([1, 2, 3]); b_ = a_ + rng.choice([0, 1, 2])
            if rng.random() < 0.6:
                phi = bi(rng.choice(["sinceT", "untilT"]), g.formula(rng.choice([0, 1])), phi if depth(phi) <= 2 else g.formula(1), a_, b_)
            else:
                phi = un(rng.choice(["onceT", "histT", "evT", "alwT"]), phi, a_, b_)
        vs = vars_of(phi) or ["x"]
        N = rng.choice([1, 2, 3, 4, 5, 6, 8, 12])
        w = gen_trace(rng, vs, N, S)
        ts = list(range(N)) if kind < 0.4 else sorted(rng.sample(range(0, 5 * N + 5), N))
        kw = {}
        if kind >= 0.75:
            # compressed time column: quarter units, gaps of 0 .. 3/4 of a period, so the stamps cover fewer periods than there are
            # samples (seed r9 C01-3: an early exit of the bounded since / until taken from the span of the time column)
            kw["tS"] = 4
            ts = [rng.choice([0, 0, 7])]
            for _ in range(N - 1):
                ts.append(ts[-1] + rng.choice([0, 1, 2, 3, 3]))
        fac = rng.choice(["StlDiscreteTimeSpecification", "StlDiscreteTimeOfflineSpecification"])
        cases.append(case([dt_obj(phi, S, vs, factory=fac, tol=1, **kw)], [ev_parse(), ev_evaluate(ts, w, flt=rng.random() < 0.5)], skip=["evaluate.viol"]))
    traces = runner.run_cases(cases)
    vs_, gen, dist = core.validate("C01", traces)
    rep.add_traces(traces, vs_, gen, dist, nontrivial_key=lambda c: c["objs"][0]["text"] + str(c["events"][1]["w"]))
    return rep.finish("TLC: two independent formulations of the semantics (signal transformer Sem!Sig vs pointwise recursive "
                      "README definition SemMC!RhoPt) agree on every trace up to MaxLen over {-2,1,3}^2; traces: evaluate() of random "
                      "formulas over the whole operator set (depth <= 4, 1-3 variables, scales 1/2/4, N in 1..12, regular / irregular "
                      "time columns, both factories): one pair per sample, stamps echoed, value = Sig, read-back AST = formula")

if __name__ == "__main__":
    core.main(main)
