import random, sys, os
sys.path.insert(0, os.path.join(os.path.dirname(os.path.abspath(__file__)), "..", "harness"))
import core
from astlib import *
from cases import *
import runner

def main():
    rep = core.Report("C01")
    rng = random.Random(core.seed() * 7919 + 1)
    n = 600 if core.tier() == "quick" else 20000
    cases = []
    for i in range(n):
        S = rng.choice([1, 1, 2, 4])
        g = Gen(rng, vars_=rng.choice([("x",), ("x", "y"), ("x", "y", "z")]), S=S,
                arith=("add", "sub", "abs", "neg") + (("mul", "div", "sqrt", "pow") if S == 1 else ("div",)))
        phi = g.formula(rng.choice([1, 2, 2, 3, 3, 4]))
        vs = vars_of(phi) or ["x"]
        N = rng.choice([1, 2, 3, 4, 5, 6, 8, 12])
        w = gen_trace(rng, vs, N, S)
        kind = rng.random()
        ts = list(range(N)) if kind < 0.5 else sorted(rng.sample(range(0, 5 * N + 5), N))
        fac = rng.choice(["StlDiscreteTimeSpecification", "StlDiscreteTimeOfflineSpecification"])
        cases.append(case([dt_obj(phi, S, vs, factory=fac, tol=1)], [ev_parse(), ev_evaluate(ts, w, flt=rng.random() < 0.5)], skip=["evaluate.viol"]))
    traces = runner.run_cases(cases)
    vs_, gen, dist = core.validate("C01", traces)
    rep.add_traces(traces, vs_, gen, dist, nontrivial_key=lambda c: c["objs"][0]["text"] + str(c["events"][1]["w"]))
    return rep.finish("random formulas depth<=4 x random traces")

if __name__ == "__main__":
    core.main(main)
