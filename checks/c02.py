"""C02: discrete-time online monitor = offline robustness at every step."""
import random, sys, os
sys.path.insert(0, os.path.join(os.path.dirname(os.path.abspath(__file__)), "..", "harness"))
import core, mc, runner
from astlib import *
from cases import *

PAST_UN = ["not", "rise", "fall", "prev", "sprev", "once", "hist"]
PAST_OPS = PAST_UN + ["onceT", "histT", "and", "or", "implies", "iff", "xor", "since", "sinceT"]
IVS = [(0, 0), (0, 1), (1, 2), (2, 2), (0, 3)]


def universe(depth2=False):
    ax, ay = pred("ge", var("x"), const(0)), pred("le", var("y"), const(1))
    F = []
    for a in (ax, ay):
        for op in PAST_UN:
            F.append(un(op, a))
        for op in ("onceT", "histT"):
            for iv in IVS:
                F.append(un(op, a, *iv))
    for op in ("and", "or", "implies", "iff", "xor", "since"):
        F.append(bi(op, ax, ay))
    for iv in IVS:
        F.append(bi("sinceT", ax, ay, *iv))
    F.append(bi("add", un("prev", var("x")), var("y")))
    dup = []
    for q in (un("prev", ax), un("once", ay), un("onceT", ax, 0, 1), un("histT", ay, 1, 2), un("rise", ax),
              bi("since", ax, ay), bi("sinceT", ax, ay, 0, 1)):
        dup.append(bi("and", q, q)); dup.append(bi("or", q, un("not", q)))
        dup.append(bi("xor", q, un("prev", q)))
    dup.append(pred("ge", bi("add", un("prev", var("x")), un("prev", var("x"))), const(0)))
    return F, dup


def main():
    import astlib
    astlib.AUTO_FUNCS = 0.2       # sqrt exp ln log pow at exact points in a fifth of the generated formulas
    rep = core.Report("C02")
    quick = core.tier() == "quick"
    F, dup = universe()
    cfgs = [mc.std_cfg(["x", "y"])]
    invs = ["InvC02", "InvC10", "InvC13"]
    r = mc.rtamt_mc("C02_depth1", F, cfgs, maxlen=3 if quick else 4, invariants=invs, properties=["ActC10"])
    rep.add_mc("depth-1 past universe + duplicates, all traces", r)
    if r["violated"]:
        rep.mc_violation("C02_depth1", r)
    r = mc.rtamt_mc("C02_dup", dup, cfgs, maxlen=3 if quick else 4, invariants=invs)
    rep.add_mc("textually duplicated stateful sub-formulas", r)
    if r["violated"]:
        rep.mc_violation("C02_dup", r)
    if not quick:
        # depth-2 universe: every past operator applied to every depth-1 formula (nested operator memories)
        F2 = []
        base = F[::2]
        for q in base:
            for op in PAST_UN:
                F2.append(un(op, q))
            for op in ("onceT", "histT"):
                F2.append(un(op, q, 0, 1)); F2.append(un(op, q, 1, 2))
        for q1 in base[:12]:
            for q2 in base[5:17]:
                F2.append(bi("since", q1, q2)); F2.append(bi("sinceT", q1, q2, 1, 2)); F2.append(bi("and", q1, un("prev", q2)))
        r = mc.rtamt_mc("C02_depth2", F2, cfgs, maxlen=3, invariants=invs, timeout=7200)
        rep.add_mc("depth-2 past universe (%d formulas), all traces up to length 3" % len(F2), r)
        if r["violated"]:
            rep.mc_violation("C02_depth2", r)
    # deviation on: operator memory advanced once per visit must break the invariant (non-vacuity)
    r = mc.rtamt_mc("C02_devon", dup, cfgs, maxlen=3, dev=["stepPerVisit"], invariants=["InvC02"], expect_violation=True)
    rep.extra["deviation_on_counterexample"] = "stepPerVisit: " + ",".join(r["violated"])

    # (B) specification -> code: behaviours of the life-cycle machine simulated by TLC, replayed on the real library
    import behaviours
    bres, behs = behaviours.simulate("C02_sim", F + dup, ["x", "y"], num=(110 if quick else 900), depth=(7 if quick else 9), seed=core.seed())
    rep.add_mc("TLC simulation of Rtamt.tla (Parse/Pastify/Update/Reset): behaviours generated for replay", bres, exhaustive=False)
    if bres["violated"]:
        rep.mc_violation("C02_sim", bres)
    bcases = behaviours.to_cases(behs, ["x", "y"])
    btr = runner.run_cases(bcases)
    bvs, bgen, bdist = core.validate("C02_sim_replay", btr)
    rep.add_traces(btr, bvs, bgen, bdist, nontrivial_key=lambda c: c["objs"][0]["text"] + str([(e["a"], e.get("s")) for e in c["events"]]))
    rep.extra["tlc_behaviours_replayed"] = len(bcases)
    rng = random.Random(core.seed() * 7919 + 2)
    n = 800 if quick else 20000
    cases = []
    for i in range(n):
        S = rng.choice([1, 1, 2, 4])
        g = Gen(rng, vars_=rng.choice([("x",), ("x", "y"), ("x", "y", "z")]), S=S, ops=PAST_OPS,
                arith=("add", "sub", "abs", "neg") + (("mul",) if S == 1 else ()), ivs=IVS + [(0, 7), (3, 5)])
        if rng.random() < 0.2:
            g.tterm = 0.25            # stateful operators inside the operands of a comparison
        k = rng.random()
        if k < 0.25:
            q = g.formula(rng.choice([1, 2]))
            phi = bi(rng.choice(["and", "or", "xor", "implies", "since"]), q, rng.choice([q, un("not", q), un("prev", q)]))
        else:
            phi = g.formula(rng.choice([1, 2, 2, 3, 3, 4]))
        vs = vars_of(phi) or ["x"]
        N = rng.choice([1, 2, 3, 4, 5, 6, 8, 12])
        w = gen_trace(rng, vs, N, S)
        fac = rng.choice(["StlDiscreteTimeSpecification", "StlDiscreteTimeOnlineSpecification"])
        evs = [ev_parse()] + [ev_update(t, sample_at(w, t), flt=rng.random() < 0.5) for t in range(N)]
        if rng.random() < 0.12:
            # update() calls that leave variables out: a variable keeps the value it was last given (0 if never): the result is
            # still a function of what was fed so far
            for e_ in evs[1:]:
                e_["s"] = {v_: x_ for v_, x_ in e_["s"].items() if rng.random() < 0.65}
        o = dt_obj(phi, S, vs, factory=fac)
        if rng.random() < 0.15:
            # the same monitor written with named sub-specifications (each is an assertion of its own *and* is referred to by a
            # later one: one more way in which a sub-formula occurs more than once; seeds C02-c, C02-f)
            from modular import decompose
            subs, main_, _cd, _named = decompose(rng, phi, S, consts=False)
            if subs:
                if rng.random() < 0.5:
                    o["subs"] = [s_ + ";" for s_ in subs]; o["text"] = "out = " + main_
                else:
                    o["text"] = " ; ".join(subs + ["out = " + main_])
        if rng.random() < 0.1:
            # a second live monitor of the same specification, fed other data, its update() calls interleaved with the first one's:
            # each monitor's i-th value is a function of the samples fed to *it* (seeds C02-c, r9 C02-1: one operator table per class)
            import copy as _copy
            o2 = _copy.deepcopy(o)
            w2 = gen_trace(rng, vs, N, S)
            evs2 = [ev_parse(o=2)] + [ev_update(t, sample_at(w2, t), o=2) for t in range(N)]
            merged, i1, i2 = [], 0, 0
            while i1 < len(evs) or i2 < len(evs2):
                if i2 >= len(evs2) or (i1 < len(evs) and rng.random() < 0.5):
                    merged.append(evs[i1]); i1 += 1
                else:
                    merged.append(evs2[i2]); i2 += 1
            cases.append(case([o, o2], merged))
            continue
        cases.append(case([o], evs))
    traces = runner.run_cases(cases)
    vs_, gen, dist = core.validate("C02", traces)
    rep.add_traces(traces, vs_, gen, dist, nontrivial_key=lambda c: c["objs"][0]["text"] + str([e.get("s") for e in c["events"]]))
    return rep.finish("TLC: every past operator (all intervals) and textual duplicates x all traces over {-2,1,3}^2 up to MaxLen; "
                      "traces: random past formulas depth<=4 (25% with duplicated stateful sub-formulas) x random traces, "
                      "each update() return compared with the operational model; distinct = (text, inputs)")

if __name__ == "__main__":
    core.main(main)
