"""C03: pastified bounded-future monitor = original robustness delayed by the horizon."""
import random, sys, os
sys.path.insert(0, os.path.join(os.path.dirname(os.path.abspath(__file__)), "..", "harness"))
import core, mc, runner
from astlib import *
from cases import *

IVS = [(0, 0), (0, 1), (1, 2), (2, 2), (0, 2), (1, 1)]
FUT_OPS = ["evT", "alwT", "untilT", "next", "snext"]
BOOL = ["not", "and", "or", "implies", "iff", "xor"]
PAST = ["prev", "sprev", "once", "hist", "since", "onceT", "histT", "sinceT", "rise", "fall"]


def past_over_future(p):
    for q in subformulas(p):
        if q["op"] in PAST and any(ops_of(c) & FUT for c in children(q)):
            return True
    return False


def universe():
    ax, ay = pred("ge", var("x"), const(0)), pred("le", var("y"), const(1))
    nx = pred("ge", un("neg", var("x")), const(0))
    fut1 = [un("next", ax), un("snext", ay)]
    for iv in [(0, 1), (1, 2), (2, 2), (0, 0)]:
        fut1 += [un("evT", ax, *iv), un("alwT", ay, *iv), bi("untilT", ax, ay, *iv)]
    past1 = [un("prev", ay), un("hist", ay), un("once", ax), bi("since", ax, ay), un("histT", ay, 0, 1), un("histT", ay, 1, 2),
             un("onceT", ax, 1, 2), bi("sinceT", ax, ay, 0, 1), un("rise", ax), ay, nx, un("sprev", ax)]
    F = list(fut1)
    for f in fut1[:8]:
        for p in past1:
            F.append(bi("and", f, p))
            F.append(bi("or", p, f))
    for f in fut1[:6]:
        F.append(un("not", f)); F.append(un("next", f)); F.append(un("evT", f, 0, 1)); F.append(un("alwT", f, 1, 1))
        F.append(bi("untilT", f, ay, 0, 1)); F.append(bi("implies", f, un("next", ay)))
    # past over future (scheme unsound): used only with the unrestricted invariant
    pof = [un("once", fut1[2]), un("hist", un("next", ax)), un("onceT", un("next", ax), 0, 1), un("prev", fut1[3]),
           bi("since", ax, fut1[2]), un("rise", un("next", ax))]
    return F, pof


def main():
    import astlib
    astlib.AUTO_FUNCS = 0.2       # sqrt exp ln log pow at exact points in a fifth of the generated formulas
    rep = core.Report("C03")
    quick = core.tier() == "quick"
    F, pof = universe()
    cfgs = [mc.std_cfg(["x", "y"])]
    ml = 4 if quick else 5
    Fq = F[::3] if quick else F
    r = mc.rtamt_mc("C03_scheme", Fq, cfgs, maxlen=ml, invariants=["InvC03", "InvC02", "InvC10"])
    rep.add_mc("pastification scheme on bounded-future formulas without past-over-future, all traces", r)
    if r["violated"]:
        rep.mc_violation("C03_scheme", r)
    # non-vacuity: each deviation of the pastifier as originally coded must break the invariant
    devs = {}
    for d in ("nextNoHorizon", "histLost", "negDropped"):
        rr = mc.rtamt_mc("C03_dev_" + d, F, cfgs, maxlen=4, dev=[d], invariants=["InvC03"], expect_violation=True)
        devs[d] = rr["violated"]
    rr = mc.rtamt_mc("C03_pof", pof, cfgs, maxlen=4, invariants=["InvC03all"], expect_violation=True)
    devs["scheme on past-over-future (F-03c)"] = rr["violated"]
    rep.extra["deviation_on_counterexamples"] = devs

    # (B) specification -> code: behaviours of the life-cycle machine simulated by TLC, replayed on the real library
    import behaviours
    bres, behs = behaviours.simulate("C03_sim", F, ["x", "y"], num=(110 if quick else 900), depth=(7 if quick else 9), seed=core.seed())
    rep.add_mc("TLC simulation of Rtamt.tla (Parse/Pastify/Update/Reset): behaviours generated for replay", bres, exhaustive=False)
    if bres["violated"]:
        rep.mc_violation("C03_sim", bres)
    bcases = behaviours.to_cases(behs, ["x", "y"])
    btr = runner.run_cases(bcases)
    bvs, bgen, bdist = core.validate("C03_sim_replay", btr)
    rep.add_traces(btr, bvs, bgen, bdist, nontrivial_key=lambda c: c["objs"][0]["text"] + str([(e["a"], e.get("s")) for e in c["events"]]))
    rep.extra["tlc_behaviours_replayed"] = len(bcases)
    rng = random.Random(core.seed() * 7919 + 3)
    n = 700 if quick else 15000
    cases = []
    for i in range(n):
        S = rng.choice([1, 1, 2])
        k = rng.random()
        ops = FUT_OPS + BOOL + (PAST if k < 0.85 else [])
        g = Gen(rng, vars_=rng.choice([("x",), ("x", "y")]), S=S, ops=ops, arith=("add", "sub", "abs", "neg"), ivs=IVS + [(0, 3), (3, 4)])
        for _ in range(50):
            phi = g.formula(rng.choice([1, 2, 2, 3, 3, 4]))
            if k < 0.12 or (ops_of(phi) & FUT):     # 12%: future-free, pastify must be the identity
                if k >= 0.12 and k < 0.65 and past_over_future(phi):
                    continue                        # keep >= 2/3 of the cases outside the known-finding class
                break
        if k < 0.12:
            phi = Gen(rng, vars_=("x", "y"), S=S, ops=BOOL + PAST, ivs=IVS).formula(rng.choice([1, 2, 3]))
        vs = vars_of(phi) or ["x"]
        h = horizon(phi)
        N = h + rng.choice([1, 2, 3, 5, 8])
        w = gen_trace(rng, vs, N, S)
        fac = rng.choice(["StlDiscreteTimeSpecification", "StlDiscreteTimeOnlineSpecification"])
        evs = [ev_parse(), ev_pastify()] + [ev_update(t, sample_at(w, t)) for t in range(N)]
        cases.append(case([dt_obj(phi, S, vs, factory=fac)], evs))
    # the LTL front end (LtlAst + LtlPastifier, delays are chains of prev): untimed formulas with next
    LTL_OPS = ["next", "snext", "next", "not", "and", "or", "implies", "prev", "once", "hist", "since", "rise"]
    for i in range(n // 4):
        S = rng.choice([1, 2])
        g = Gen(rng, vars_=rng.choice([("x",), ("x", "y")]), S=S, ops=LTL_OPS, arith=("add", "sub", "abs", "neg"))
        for _ in range(50):
            phi = g.formula(rng.choice([1, 2, 2, 3]))
            if ("next" in ops_of(phi) or "snext" in ops_of(phi)) and (rng.random() < 0.2 or not past_over_future(phi)):
                break
        else:
            continue
        vs = vars_of(phi) or ["x"]
        N = horizon(phi) + rng.choice([1, 2, 3, 5])
        w = gen_trace(rng, vs, N, S)
        evs = [ev_parse(), ev_pastify()] + [ev_update(t, sample_at(w, t)) for t in range(N)]
        cases.append(case([dt_obj(phi, S, vs, factory="ltl_online", ltl=True)], evs))
    # bounds written with units (one-sided suffixes, non-default units, period in another unit): pastify() must keep
    # the meaning of future-free specifications and delay bounded-future ones by the horizon in samples
    import c08 as _c08
    for i in range(n // 5):
        futfree = rng.random() < 0.4
        ops = ["not", "and", "or", "onceT", "histT", "sinceT", "once", "prev"] + ([] if futfree else ["evT", "alwT", "untilT", "next"])
        g = Gen(rng, vars_=("x", "y"), S=1, ops=ops, ivs=[(0, 1), (1, 2), (0, 2), (2, 2), (1, 3)], bool_atoms=False)
        for _ in range(40):
            phi = g.formula(rng.choice([1, 2, 2, 3]))
            if (ops_of(phi) & TIMED) and (futfree or ((ops_of(phi) & FUT) and not past_over_future(phi))):
                break
        else:
            continue
        if not futfree and rng.random() < 0.4:
            phi = _c08.shaped_past(rng, g)
        vs = vars_of(phi) or ["x"]
        pnum, punit = rng.choice(_c08.PERIODS)
        default = rng.choice(["s", "ms", "us"])
        written, styles = _c08.write_ast(rng, phi, pnum * 10 ** _c08.E[punit], default)
        o = dt_obj(phi, 1, vs, text="out = " + to_text(written, 1), written=written,
                   units={"def": default, "pnum": pnum, "pden": 1, "punit": punit}, unit=default, set_period=[pnum, punit, 0.1])
        N = horizon(phi) + rng.choice([2, 3, 5])
        w = gen_trace(rng, vs, N, 1, lo=-6, hi=6)
        evs = [ev_parse(), ev_pastify()] + [ev_update(t, sample_at(w, t)) for t in range(N)]
        cases.append(case([o], evs, skip=["update.viol"], timeout=8))
    # modular specifications: one named sub-specification (a shared node) referenced at positions that need different delays
    from modular import text_with_names
    for i in range(n // 6):
        S = 1
        g = Gen(rng, vars_=("x", "y"), S=S, ops=["not", "and", "or", "prev", "onceT", "histT", "once"], ivs=IVS, bool_atoms=False)
        q = g.formula(rng.choice([0, 1, 1, 2]))
        if q["op"] in ("var", "const") or (ops_of(q) & FUT):
            continue
        def ref():
            r_ = rng.random()
            if r_ < 0.3:
                return q
            if r_ < 0.5:
                return un("next", q)
            if r_ < 0.75:
                return un("evT", q, *rng.choice([(0, 1), (1, 2), (2, 2)]))
            if r_ < 0.9:
                return un("alwT", q, *rng.choice([(0, 1), (1, 2)]))
            return un("next", un("next", q))
        phi = bi(rng.choice(["and", "or", "implies"]), ref(), ref())
        if rng.random() < 0.4:
            phi = bi(rng.choice(["and", "or"]), phi, rng.choice([ref(), g.formula(1)]))
        if not (ops_of(phi) & FUT):
            continue
        names = {id(r_): "sub1" for r_ in subformulas(phi) if r_ is q}
        main_text = text_with_names(phi, S, names)
        sub_text = "sub1 = " + to_text(q, S)
        vs = vars_of(phi) or ["x"]
        o = dt_obj(phi, S, vs)
        if rng.random() < 0.5:
            o["subs"] = [sub_text + ";"]; o["text"] = "out = " + main_text
        else:
            o["text"] = sub_text + " ; out = " + main_text
        N = horizon(phi) + rng.choice([2, 3, 5, 8])
        w = gen_trace(rng, vs, N, S)
        evs = [ev_parse(), ev_pastify()] + [ev_update(t, sample_at(w, t)) for t in range(N)]
        cases.append(case([o], evs))
    traces = runner.run_cases(cases)
    vs_, gen, dist = core.validate("C03", traces)
    rep.add_traces(traces, vs_, gen, dist, nontrivial_key=lambda c: c["objs"][0]["text"] + str([e.get("s") for e in c["events"]]))
    rep.extra["past_over_future_cases"] = sum(1 for c in cases if past_over_future(c["objs"][0]["phi"]))
    return rep.finish("TLC: pastifier model (horizon.py/pastifier.py clause by clause) on bounded-future formulas depth<=2 with past "
                      "siblings x all traces over {-2,1,3}^2 up to MaxLen, online run of the pastified AST vs Sig(original) delayed; "
                      "deviation-on runs; traces: random bounded-future formulas depth<=4, parse/pastify/update, every return after the "
                      "horizon compared with Sig(original, prefix)[k-h]")

if __name__ == "__main__":
    core.main(main)
