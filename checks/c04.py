"""C04: dense-time offline robustness = dense-time semantics (SigC on unit cells)."""
import random, sys, os
sys.path.insert(0, os.path.join(os.path.dirname(os.path.abspath(__file__)), "..", "harness"))
import core, runner
from astlib import *
from cases import *

DENSE_OPS = ["not", "and", "or", "implies", "iff", "xor", "once", "hist", "ev", "alw", "since", "until",
             "onceT", "histT", "evT", "alwT", "sinceT", "untilT"]
IVS = [(0, 1), (1, 2), (0, 2), (2, 2), (0, 3), (1, 4), (0, 0), (3, 5)]


def gen_cases(rng, n, ops=DENSE_OPS):
    cases = []
    for i in range(n):
        S = rng.choice([1, 1, 2])
        g = Gen(rng, vars_=rng.choice([("x",), ("x", "y"), ("x", "y", "z")]), S=S, ops=ops, ivs=IVS, bool_atoms=True,
                arith=("add", "sub", "abs", "neg") + (("mul",) if S == 1 else ()))
        phi = g.formula(rng.choice([1, 1, 2, 2, 3]))
        r_ = rng.random()
        if r_ < 0.15:       # nested unbounded operators (they share accumulators in the implementation)
            a_, b_ = g.formula(1), g.formula(1)
            o1, o2 = rng.choice(["ev", "alw", "once", "hist"]), rng.choice(["ev", "alw", "once", "hist"])
            phi = un(o1, bi(rng.choice(["and", "or", "implies"]), a_, un(o2, b_)))
        elif r_ < 0.3:      # bounded operators directly on a signal with many samples
            iv = rng.choice(IVS + [(0, 5), (1, 6), (2, 4)])
            op = rng.choice(["evT", "alwT", "onceT", "histT", "untilT", "sinceT"])
            phi = un(op, g.atom(), *iv) if op in UN_TIMED else bi(op, g.atom(), g.atom(), *iv)
            if rng.random() < 0.4:
                phi = un("not", phi)
        if not vars_of(phi):
            continue                      # no input signal: the common input domain is not defined
        vs = vars_of(phi)
        end = rng.choice([3, 5, 8, 10, 12])
        w = {}
        # all variables share the first and the last time-stamp (what a past window sees before the common domain,
        # when one variable starts earlier than another, is not fixed by the property); interior break-points differ
        t0 = rng.choice([0, 0, 0, 1, 2]) if rng.random() < 0.3 else 0
        for v in vs:
            w[v] = gen_signal(rng, rng.choice([1, 2, 3, 4, 6, 8]), t0=min(t0, end - 1), S=S, end=end)
        fac = rng.choice(["StlDenseTimeSpecification", "StlDenseTimeOfflineSpecification"])
        cases.append(case([ct_obj(phi, S, vs, factory=fac)], [ev_parse(), ev_ct("evaluate", w, flt=rng.random() < 0.5)]))
    return cases


def main():
    rep = core.Report("C04")
    quick = core.tier() == "quick"
    rng = random.Random(core.seed() * 7919 + 4)
    cases = gen_cases(rng, 1200 if quick else 30000)
    traces = runner.run_cases(cases)
    vs_, gen, dist = core.validate("C04", traces, module="TraceCt")
    rep.add_traces(traces, vs_, gen, dist, nontrivial_key=lambda c: c["objs"][0]["text"] + str(c["events"][-1]["w"]))
    return rep.finish("traces: random dense-time formulas (Boolean, arithmetic, bounded and unbounded past/future, since/until) depth<=3 on "
                      "1-3 piecewise-constant signals with unaligned integer break-points and different first time-stamps; the returned "
                      "sample list must be monotone, start at the domain begin and, read as a step function at every cell start and "
                      "mid-point, equal Dense!SigC")

if __name__ == "__main__":
    core.main(main)
