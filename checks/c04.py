"""C04: dense-time offline robustness = dense-time semantics (SigC on unit cells)."""
import random, sys, os
sys.path.insert(0, os.path.join(os.path.dirname(os.path.abspath(__file__)), "..", "harness"))
import core, runner
from astlib import *
from cases import *

DENSE_OPS = ["not", "and", "or", "implies", "iff", "xor", "once", "hist", "ev", "alw", "since", "until",
             "onceT", "histT", "evT", "alwT", "sinceT", "untilT"]
IVS = [(0, 1), (1, 2), (0, 2), (2, 2), (0, 3), (1, 4), (0, 0), (3, 5)]


def gen_cases(rng, n, ops=DENSE_OPS):
    cases = []
    for i in range(n):
        S = rng.choice([1, 1, 2])
        g = Gen(rng, vars_=rng.choice([("x",), ("x", "y"), ("x", "y", "z")]), S=S, ops=ops, ivs=IVS, bool_atoms=True,
                arith=("add", "sub", "abs", "neg") + (("mul",) if S == 1 else ()))
        phi = g.formula(rng.choice([1, 1, 2, 2, 3]))
        r_ = rng.random()
        if r_ < 0.15:       # nested unbounded operators (they share accumulators in the implementation)
            a_, b_ = g.formula(1), g.formula(1)
            o1, o2 = rng.choice(["ev", "alw", "once", "hist"]), rng.choice(["ev", "alw", "once", "hist"])
            phi = un(o1, bi(rng.choice(["and", "or", "implies"]), a_, un(o2, b_)))
        elif r_ < 0.4:      # bounded operators directly on a signal with many samples
            iv = rng.choice(IVS + [(0, 5), (1, 6), (2, 4)])
            op = rng.choice(["evT", "alwT", "onceT", "histT", "untilT", "sinceT"])
            phi = un(op, g.atom(), *iv) if op in UN_TIMED else bi(op, g.atom(), g.atom(), *iv)
            if rng.random() < 0.4:
                phi = un("not", phi)
        if not vars_of(phi):
            continue                      # no input signal: the common input domain is not defined
        vs = vars_of(phi)
        diffstart = False
        if rng.random() < 0.25:
            g2 = Gen(rng, vars_=rng.choice([("x", "y"), ("x", "y", "z")]), S=S, ops=[o for o in ops if o not in TIMED] if rng.random() < 0.7 else ops,
                     ivs=IVS, bool_atoms=True, arith=("add", "sub", "abs", "neg"))
            for _ in range(30):
                phi2 = g2.formula(rng.choice([1, 2, 2, 3]))
                if len(vars_of(phi2)) >= 2 and not any(q["op"] not in ("var", "const") and not vars_of(q) for q in subformulas(phi2)):
                    phi, vs, diffstart = phi2, vars_of(phi2), True
                    break
        end = rng.choice([3, 5, 8, 10, 12])
        w = {}
        # all variables share the first and the last time-stamp (what a past window sees before the common domain,
        # when one variable starts earlier than another, is not fixed by the property); interior break-points differ
        t0 = rng.choice([0, 0, 0, 1, 2]) if rng.random() < 0.3 else 0
        if 0.15 <= r_ < 0.4:
            end = max(end, 8)       # room for staircases; every variable of the case ends at the same time-stamp (DESIGN 3.2)
        for v in vs:
            w[v] = gen_signal(rng, rng.choice([1, 2, 3, 4, 6, 8]), t0=min(t0, end - 1), S=S, end=end)
            if 0.15 <= r_ < 0.4 and rng.random() < 0.6:
                # staircases after an extreme value, many short levels (the sweeps discard several dominated intervals at once)
                w[v] = gen_signal(rng, rng.choice([5, 6, 8, 9]), t0=min(t0, end - 1), S=S, end=end, stair=True)
        if diffstart and rng.random() < 0.5:
            # shaped: an unbounded past operator over the signal that begins first, combined with a signal that begins later
            e_, l_ = rng.sample(vs, 2)
            at_ = lambda v_: pred(rng.choice(["ge", "le", "gt"]), var(v_), rng.choice([const(0), const(S), const(2 * S), un("neg", const(S)), un("neg", const(2 * S))]))
            inner = rng.choice([lambda: un("once", at_(e_)), lambda: un("hist", at_(e_)), lambda: bi("since", at_(e_), at_(e_)),
                                lambda: un("not", un("once", at_(e_)))])()
            phi = bi(rng.choice(["and", "or", "implies", "since", "until"]), *rng.sample([inner, at_(l_)], 2))
            if rng.random() < 0.4:
                phi = un(rng.choice(["once", "hist", "not", "ev"]), phi)
            vs = vars_of(phi)
            w = {v: w[v] for v in vs}
            for v in vs:
                w[v] = gen_signal(rng, rng.choice([2, 3, 4, 6]), t0=(0 if v == e_ else rng.choice([1, 2, 3])), S=S, end=end)
        elif diffstart:
            # signals that begin at different times: the result begins with the latest one, and every sub-formula is evaluated
            # on its own domain (Dense!SigD) - a past operator over the earlier signal sees its samples before the common domain
            late = rng.sample(vs, rng.randint(1, len(vs) - 1))
            for v in late:
                w[v] = gen_signal(rng, rng.choice([1, 2, 3, 4]), t0=rng.choice([1, 2, 3]), S=S, end=end)
        fac = rng.choice(["StlDenseTimeSpecification", "StlDenseTimeOfflineSpecification"])
        if len({w[v][-1][0] for v in vs}) != 1:
            raise core.Machinery("C04 generator: the signals of a case must end together (DESIGN 3.2): %r" % w)
        cases.append(case([ct_obj(phi, S, vs, factory=fac)], [ev_parse(), ev_ct("evaluate", w, flt=rng.random() < 0.5)], diffstart=diffstart))
    return cases


def main():
    import astlib
    astlib.AUTO_FUNCS = 0.2       # sqrt exp ln log pow at exact points in a fifth of the generated formulas
    rep = core.Report("C04")
    quick = core.tier() == "quick"
    rng = random.Random(core.seed() * 7919 + 4)
    # (A): the operational model of the offline monitor (DenseOff!OffC: merge of sample lists, forward / backward sweeps of the
    # bounded operators, since / until folds) denotes Dense!SigC for every formula of a universe x every pair of short signals
    import densemc
    ax, ay = pred("ge", var("x"), const(2)), pred("lt", var("y"), const(2))
    k03 = pred("le", bi("sub", const(0), const(3)), const(1))
    FU = [ax, bi("and", ax, ay), bi("or", var("x"), var("y")), pred("ge", bi("sub", var("x"), var("y")), const(0)), un("onceT", ax, 1, 2),
          un("histT", bi("or", ax, ay), 0, 1), bi("since", ax, ay), bi("sinceT", ax, ay, 1, 2), un("once", bi("and", ax, ay)),
          bi("and", un("onceT", ax, 1, 1), ay), un("onceT", un("histT", ax, 0, 1), 1, 2), bi("implies", un("not", ax), un("onceT", ay, 0, 2)),
          un("evT", ax, 1, 2), un("alwT", bi("or", ax, ay), 0, 1), bi("until", ax, ay), bi("untilT", ax, ay, 1, 2), bi("untilT", ax, ay, 0, 2),
          un("ev", bi("and", ax, ay)), un("alw", ax), un("evT", un("alwT", ay, 0, 1), 1, 2), un("onceT", un("evT", ax, 0, 2), 1, 1),
          bi("or", k03, ax), bi("sinceT", ax, ay, 0, 2), un("hist", un("alwT", ax, 0, 1)), bi("xor", un("ev", ax), un("histT", ay, 1, 3)),
          pred("eq", bi("add", var("x"), un("abs", var("y"))), const(1)), un("alwT", un("evT", ax, 1, 1), 2, 3), bi("iff", un("alw", ay), un("once", ax)),
          bi("until", un("onceT", ax, 0, 1), un("not", ay)), un("evT", bi("since", ax, ay), 0, 3)]
    r = densemc.run_offline("C04_off", FU, maxt=3 if quick else 5, maxn=3 if quick else 4, vals=(-2, 1, 3))
    rep.add_mc("DenseOffMC: DenseOff!OffC denotes Dense!SigC (monotone, starts at the domain begin, equal on the domain) for %d formulas x "
               "all signal pairs with <= %d samples, common end <= %d" % (len(FU), 3 if quick else 4, 3 if quick else 5), r)
    if r["violated"]:
        rep.mc_violation("DenseOffMC", r)
    # signals that begin at different times (0 or 1): every sub-formula is evaluated on its own domain (Dense!SigD)
    FS_ = FU if not quick else [f_ for f_ in FU if len(vars_of(f_)) > 1 and not (ops_of(f_) & TIMED)]
    r = densemc.run_offline("C04_off_starts", FS_ + [bi("and", un("once", ax), ay), bi("since", un("hist", ay), ax), bi("or", un("ev", ax), un("once", ay)),
                                                    un("once", bi("and", ax, un("hist", ay))), bi("until", ax, un("once", ay))],
                            maxt=3 if quick else 4, maxn=3, vals=(-2, 3) if quick else (-2, 1, 3), starts=(0, 1))
    rep.add_mc("DenseOffMC with signals beginning at 0 or 1: DenseOff!OffC denotes Dense!SigD (sub-formulas on their own domains; bounded "
               "operators over a late signal are finding F-04b and left out)", r)
    if r["violated"]:
        rep.mc_violation("DenseOffMC_starts", r)
    # the open finding F-04b at design level: the same model on signals whose first time-stamp is 1
    r = densemc.run_offline("C04_off_t0", FU, maxt=3, maxn=3, vals=(-2, 3), t0=1, expect_violation=True)
    rep.extra["deviation_on_counterexamples"] = {"first time-stamp 1 (F-04b, the model as transcribed)": r["violated"]}
    cases = gen_cases(rng, 1200 if quick else 30000)
    traces = runner.run_cases(cases)
    vs_, gen, dist = core.validate("C04", traces, module="TraceCt")
    rep.add_traces(traces, vs_, gen, dist, nontrivial_key=lambda c: c["objs"][0]["text"] + str(c["events"][-1]["w"]))
    return rep.finish("TLC: theorem DenseOffMC (the operational model of the offline monitor, DenseOff.tla, denotes Dense!SigC) on a formula "
                      "universe x all short signal pairs; every evaluate() below is also computed by that model and must return exactly its "
                      "list (binding diagnostic operational_model_*); traces: random dense-time formulas (Boolean, arithmetic, bounded and unbounded past/future, since/until) depth<=3 on "
                      "1-3 piecewise-constant signals with unaligned integer break-points and different first time-stamps; the returned "
                      "sample list must be monotone, start at the domain begin and, read as a step function at every cell start and "
                      "mid-point, equal Dense!SigC")

if __name__ == "__main__":
    core.main(main)
