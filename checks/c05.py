"""C05: dense-time online output does not depend on how the input is cut into update() batches."""
import itertools, json, random, sys, os
sys.path.insert(0, os.path.join(os.path.dirname(os.path.abspath(__file__)), "..", "harness"))
import core, runner
from astlib import *
from cases import *

UNTIMED = ["not", "and", "or", "implies", "iff", "xor", "once", "hist", "since"]
TIMED_P = ["onceT", "histT", "sinceT"]
IVS = [(0, 1), (1, 2), (0, 2), (2, 2), (0, 3), (1, 3)]


def splits(n):
    """all ways to cut 0..n-1 into consecutive non-empty batches: list of lists of (lo, hi)"""
    out = []
    for cuts in itertools.product([0, 1], repeat=n - 1):
        b, lo = [], 0
        for i, c in enumerate(cuts):
            if c:
                b.append((lo, i + 1)); lo = i + 1
        b.append((lo, n))
        out.append(b)
    return out


def schedule_events(w, sched, o):
    """sched: {var: [(lo,hi),...]}; the i-th update carries the i-th batch of every variable that still has one"""
    evs = []
    m = max(len(b) for b in sched.values())
    for i in range(m):
        batch = {}
        for v in w:
            if i < len(sched[v]):
                lo, hi = sched[v][i]
                batch[v] = w[v][lo:hi]
            else:
                batch[v] = []
        evs.append(ev_ct("update", batch, o))
    return evs


def overlap_events(w, sched, o):
    """like schedule_events, but every batch after the first starts with a copy of the previous batch's last sample.
    NOT used by C05: the property speaks of *cutting* a signal into batches (a partition); feeding a sample twice is
    outside it (and bounded operators then emit non-monotone time-stamps)."""
    evs = []
    m = max(len(b) for b in sched.values())
    for i in range(m):
        batch = {}
        for v in w:
            if i < len(sched[v]):
                lo, hi = sched[v][i]
                batch[v] = ([list(w[v][lo - 1])] if i > 0 else []) + w[v][lo:hi]
            else:
                batch[v] = []
        evs.append(ev_ct("update", batch, o))
    return evs


def staggered_events(rng, w, sched, o):
    """each update carries the next batch of a random non-empty subset of the variables (the others get [])"""
    evs = []
    pos = {v: 0 for v in w}
    while any(pos[v] < len(sched[v]) for v in w):
        live = [v for v in w if pos[v] < len(sched[v])]
        pick = [v for v in live if rng.random() < 0.5] or [rng.choice(live)]
        batch = {}
        for v in w:
            if v in pick:
                lo, hi = sched[v][pos[v]]
                batch[v] = w[v][lo:hi]; pos[v] += 1
            else:
                batch[v] = []
        evs.append(ev_ct("update", batch, o))
    return evs


def gen_cases(rng, n, quick):
    cases = []
    for i in range(n):
        S = rng.choice([1, 1, 2])
        kind = rng.choice(["untimed", "untimed", "timed", "future", "two_signal"])
        ops = list(UNTIMED)
        if kind == "timed":
            ops += TIMED_P
        if kind == "future":
            ops = ["not", "and", "or", "implies", "evT", "alwT", "once", "hist"]
        g = Gen(rng, vars_=rng.choice([("x",), ("x", "y")]), S=S, ops=ops, ivs=IVS, bool_atoms=True)
        if kind == "two_signal":
            # every binary arithmetic / comparison node between two *signals*, fed by lagging per-variable batches
            g = Gen(rng, vars_=("x", "y"), S=S, ops=["not", "and", "or", "once", "hist", "onceT"], ivs=IVS, bool_atoms=False)
            def atom(g=g):
                a_, b_ = rng.choice([("x", "y"), ("y", "x")])
                r_ = rng.random()
                if r_ < 0.3:
                    return pred(rng.choice(g.cmps), var(a_), var(b_))
                t_ = bi(rng.choice(["add", "sub", "sub"] + (["mul"] if S == 1 else [])), var(a_), var(b_))
                if r_ < 0.45:
                    t_ = un(rng.choice(["abs", "neg"]), t_)
                return pred(rng.choice(g.cmps), t_, const(rng.choice([0, 1, 2]) * S))
            g.atom = atom
        for _ in range(30):
            phi = g.formula(rng.choice([1, 1, 2, 2, 3]))
            if not vars_of(phi):
                continue
            if kind == "future" and not (ops_of(phi) & FUT):
                continue
            if kind == "timed" and not (ops_of(phi) & set(TIMED_P)):
                continue
            break
        else:
            continue
        import c03 as _c03
        if kind == "future" and _c03.past_over_future(phi):
            continue
        vs = vars_of(phi)
        end = rng.choice([3, 4, 6, 8])
        t0 = rng.choice([0, 0, 0, 0, 1, 2])      # first time-stamps > 0: F-05c for bounded operators with begin > 0
        w = {v: gen_signal(rng, rng.choice([2, 3, 4, 5]), t0=t0, S=S, end=end + t0) for v in vs}
        diffstart = False
        if len(vs) > 1 and kind in ("untimed", "two_signal", "timed") and rng.random() < (0.15 if kind == "timed" else 0.35):
            # the signals begin at different times: the output begins with the latest one, every sub-formula is evaluated on its
            # own domain (Dense!SigD; seed C05-i: since over operands that begin at different times)
            late = rng.choice(vs)
            w[late] = gen_signal(rng, rng.choice([2, 3, 4]), t0=t0 + rng.choice([1, 2, 3]), S=S, end=end + t0)
            diffstart = True
            if kind == "untimed" and rng.random() < 0.4:
                # shaped: a binary temporal / Boolean operator directly over one early and one late signal, below an unbounded operator
                e_ = [v for v in vs if v != late][0]
                at_ = lambda v_: pred(rng.choice(["ge", "le", "gt"]), var(v_), rng.choice([const(0), const(S), const(2 * S), un("neg", const(S))]))
                inner = rng.choice([lambda: at_(e_), lambda: un("once", at_(e_)), lambda: un("hist", at_(e_)), lambda: bi("since", at_(e_), at_(e_))])()
                phi = bi(rng.choice(["since", "since", "and", "or", "implies"]), *rng.sample([inner, at_(late)], 2))
                if rng.random() < 0.4:
                    phi = un(rng.choice(["once", "hist", "not"]), phi)
        allsp = {v: splits(len(w[v])) for v in vs}
        scheds = [{v: [(0, len(w[v]))] for v in vs},                              # everything at once
                  {v: [(k, k + 1) for k in range(len(w[v]))] for v in vs}]        # one sample at a time
        for _ in range(2 if quick else 4):
            scheds.append({v: rng.choice(allsp[v]) for v in vs})
        objs, evs, rels = [], [], []
        fac = rng.choice(["StlDenseTimeSpecification", "StlDenseTimeOnlineSpecification"])
        modtext = None
        if rng.random() < 0.12:
            # the same monitor written with named sub-specifications (assertions of their own that later assertions refer to): one
            # more way in which an operator is reached twice within one update() (seed r9 C05-2: memo cleared per assertion)
            from modular import decompose
            subs_, main_, _cd, _nm = decompose(rng, phi, S, consts=False)
            if subs_:
                modtext = " ; ".join(subs_ + ["out = " + main_])
        for k, sc in enumerate(scheds):
            objs.append(ct_obj(phi, S, vs, factory=fac))
            if modtext:
                objs[-1]["text"] = modtext
            evs.append(ev_parse(k + 1))
            if kind == "future":
                evs.append(ev_pastify(k + 1))
            if k >= 2 and len(vs) > 1 and rng.random() < (0.9 if kind == "two_signal" else 0.5):
                evs += staggered_events(rng, w, sc, k + 1)
            else:
                evs += schedule_events(w, sc, k + 1)
            if k >= 2 and rng.random() < 0.3:
                # a variable without new samples is left out of the call instead of being given an empty list (also in the first call)
                for e_ in evs:
                    if e_["o"] == k + 1 and e_["a"] == "update" and any(e_["w"].values()):
                        e_["w"] = {v_: b_ for v_, b_ in e_["w"].items() if b_}
            if k > 0:
                rels.append({"rel": "same_fn", "x": 1, "y": k + 1})
        cases.append(case(objs, evs, rels, kind=kind, diffstart=diffstart))
    return cases


def main():
    import astlib
    astlib.AUTO_FUNCS = 0.2       # sqrt exp ln log pow at exact points in a fifth of the generated formulas
    rep = core.Report("C05")
    quick = core.tier() == "quick"
    rng = random.Random(core.seed() * 7919 + 5)
    # (A) + (B) at operator level: the pending-interval algorithm of once[a,b] / historically[a,b] (DenseOn!TimedUpd) under every
    # chunking of every short signal (consecutive, empty and sample-repeating batches); the behaviours TLC explored are
    # replayed on the real operator classes
    import concurrent.futures as cf
    import densemc, oprec
    combos = [(k, a, b) for k in ("onceT", "histT") for a, b in IVS + [(0, 0)]]
    mt, mn = (4, 3) if quick else (6, 5)
    pick = set(rng.sample(range(len(combos)), 4 if quick else len(combos)))
    def job(i):
        k, a, b = combos[i]
        return combos[i], densemc.run("C05_op_%s_%d_%d" % (k, a, b), k, a, b, maxt=mt, maxn=mn, emit=i in pick, workers=2 if quick else 4)
    behs = []
    with cf.ThreadPoolExecutor(max_workers=7 if quick else 4) as ex:
        for (k, a, b), (r, bs) in ex.map(job, range(len(combos))):
            rep.add_mc("DenseOnMC %s[%d,%d]: all chunkings of all signals with <= %d samples in 0..%d (NoErr Mono BatchStrict Agree Covers)" % (k, a, b, mn, mt), r)
            if r["violated"]:
                rep.mc_violation("DenseOnMC_%s_%d_%d" % (k, a, b), r)
            behs += bs
    # (A) at formula level: the whole online monitor (DenseOn!UpdateC: intersection of streams, binary operator buffers, predicates,
    # since, timed operators, constants) on formulas x signal pairs x every per-variable schedule
    ax, ay = pred("ge", var("x"), const(2)), pred("lt", var("y"), const(2))
    k03 = pred("le", bi("sub", const(0), const(3)), const(1))
    FU = [ax, bi("and", ax, ay), bi("or", var("x"), var("y")), pred("ge", bi("sub", var("x"), var("y")), const(0)), un("onceT", ax, 1, 2),
          un("histT", bi("or", ax, ay), 0, 1), bi("since", ax, ay), bi("sinceT", ax, ay, 1, 2), un("once", bi("and", ax, ay)),
          bi("and", un("onceT", ax, 1, 1), ay), un("onceT", un("histT", ax, 0, 1), 1, 2), bi("implies", un("not", ax), un("onceT", ay, 0, 2)),
          k03, bi("or", k03, ax), bi("xor", ax, un("hist", ay)), pred("eq", bi("add", var("x"), un("abs", var("y"))), const(1)),
          bi("sinceT", ax, ay, 0, 2), un("histT", un("onceT", ay, 2, 2), 1, 3), bi("iff", un("onceT", ax, 0, 1), un("histT", ay, 0, 1)),
          bi("and", bi("or", ax, ay), un("not", bi("or", ax, ay)))]
    fsel = [FU[i] for i in sorted(rng.sample(range(len(FU)), 5))] if quick else FU
    r = densemc.run_formulas("C05_formulas", fsel, maxt=3 if quick else 4, maxn=3, vals=(-2, 3) if quick else (-2, 1, 3), workers=12)
    rep.add_mc("DenseOnFMC: %d formulas x signal pairs (<= 3 samples, common end <= %d) x every per-variable schedule (NoErr Mono Agree)"
               % (len(fsel), 3 if quick else 4), r)
    if r["violated"]:
        rep.mc_violation("DenseOnFMC", r)
    # signals that begin at different times (0 or 1), every schedule: the output begins with the latest signal and denotes Dense!SigD
    F2 = [f_ for f_ in FU if len(vars_of(f_)) > 1] + [bi("and", un("once", ax), ay), bi("since", un("hist", ay), ax), bi("since", ax, un("once", ay)),
                                                      un("once", bi("or", ax, un("hist", ay))), bi("and", un("onceT", ax, 0, 1), ay)]
    f2sel = [F2[i] for i in sorted(rng.sample(range(len(F2)), 4))] if quick else F2
    r = densemc.run_formulas("C05_formulas_starts", f2sel, maxt=3, maxn=3, vals=(-2, 3), workers=12, starts=(0, 1))
    rep.add_mc("DenseOnFMC with signals beginning at 0 or 1: %d two-signal formulas x signal pairs x every per-variable schedule; the returns "
               "denote Dense!SigD (sub-formulas on their own domains) and begin with the latest signal" % len(f2sel), r)
    if r["violated"]:
        rep.mc_violation("DenseOnFMC_starts", r)
    # (B) at formula level: behaviours of DenseOnFMC chosen by TLC's simulator (formula, signals, schedule) replayed on the real monitor;
    # TraceCt validates them like any recorded execution (contract + call-by-call comparison with the model)
    rs, behs_f = densemc.run_formulas("C05_formulas_sim", FU + F2[-5:], maxt=4, maxn=3, vals=(-2, 1, 3), simulate=120 if quick else 1500, workers=8, seed=core.seed(), starts=(0, 0, 1, 2))
    rep.add_mc("TLC simulation of DenseOnFMC: behaviours generated for replay on the real monitor", rs, exhaustive=False)
    if rs["violated"]:
        rep.mc_violation("DenseOnFMC_sim", rs)
    seen_b, bcases = set(), []
    for b_ in behs_f:
        key_ = json.dumps(b_, sort_keys=True)
        if key_ in seen_b or not b_["hist"]:
            continue
        seen_b.add(key_)
        vs_b = sorted(b_["md"]["io"].keys())
        o_b = ct_obj(b_["phi"], 1, vs_b, factory=("StlDenseTimeSpecification", "StlDenseTimeOnlineSpecification")[len(bcases) % 2])
        bcases.append(case([o_b], [ev_parse()] + [ev_ct("update", {v: h_.get(v, []) for v in vs_b}, 1) for h_ in b_["hist"]], kind="tlc"))
    if len(bcases) > (1500 if quick else 20000):
        bcases = rng.sample(bcases, 1500 if quick else 20000)
    btr = runner.run_cases(bcases)
    bvs, bgen, bdist = core.validate("C05_sim_replay", btr, module="TraceCt")
    rep.add_traces(btr, bvs, bgen, bdist, nontrivial_key=lambda c: c["objs"][0]["text"] + str([e.get("w") for e in c["events"]]))
    rep.extra["tlc_behaviours_replayed_on_whole_monitors"] = len(bcases)
    devs = {}
    for dev, f_ in (("constEveryUpdate", bi("or", k03, ax)), ("dropPending", un("onceT", ax, 0, 2)), ("noDedupe", un("onceT", un("histT", ax, 0, 1), 1, 2))):
        r = densemc.run_formulas("C05_formulas_dev_" + dev, [f_], maxt=3, maxn=3, dev=[dev], workers=6, expect_violation=True)
        devs["formula level: " + dev] = r["violated"]
    for dev, (k, a, b) in (("dropPending", ("onceT", 0, 2)), ("noDedupe", ("histT", 1, 3))):
        r, _ = densemc.run("C05_op_dev_" + dev, k, a, b, maxt=4, maxn=3, dev=[dev], workers=4, expect_violation=True)
        devs[dev] = r["violated"]
    # the open finding F-05c at design level: the same operator model on signals whose first time-stamp is 1 (begin > 0)
    r, _ = densemc.run("C05_op_t0", "histT", 1, 3, maxt=4, maxn=3, workers=4, expect_violation=True, t0=1)
    devs["first time-stamp 1, begin > 0 (F-05c, no deviation switched on)"] = r["violated"]
    r, _ = densemc.run("C05_op_t0_begin0", "onceT", 0, 2, maxt=4, maxn=3, workers=4, t0=1)
    rep.add_mc("DenseOnMC onceT[0,2] on signals whose first time-stamp is 1 (begin = 0: holds)", r)
    if r["violated"]:
        rep.mc_violation("DenseOnMC_t0_begin0", r)
    rep.extra["deviation_on_counterexamples"] = devs
    if len(behs) > (40000 if quick else 400000):
        behs = rng.sample(behs, 40000 if quick else 400000)
    # the operator classes are internals: the replay applies only while they have the interface it assumes (oprec.applicable)
    op_ok, op_why = oprec.applicable()
    rep.extra["operator_level_replay_applicable"] = op_ok
    if not op_ok:
        print("NOTE: the operator-level replay is skipped - the classes OnceTimedOperation / HistoricallyTimedOperation no longer have the "
              "interface it assumes (%s); whole monitors are replayed as before" % op_why)
    else:
        optr = oprec.run_op_cases(behs)
        ovs, ogen, odist = core.validate("C05_op", optr, module="TraceOp", batch=3000)
        rep.add_traces(optr, ovs, ogen, odist, nontrivial_key=lambda c: json.dumps([c["kind"], c["a"], c["b"], c["hist"]]))
        rep.extra["operator_behaviours_replayed"] = len(optr)
        rep.extra["operator_model_exact"] = sum(1 for v in ovs if v.get("exact"))
        rep.extra["operator_batches_strictly_increasing"] = sum(1 for v in ovs if v.get("strict"))
        if rep.extra["operator_model_exact"] != len(optr):
            print("NOTE: model drift - %d of %d replayed operator behaviours differ from DenseOn!TimedUpd call by call (returned batch or "
                  "memory); the verdict is taken from the contract clauses only" % (len(optr) - rep.extra["operator_model_exact"], len(optr)))
    cases = gen_cases(rng, 1500 if quick else 15000, quick)
    traces = runner.run_cases(cases)
    vs_, gen, dist = core.validate("C05", traces, module="TraceCt")
    rep.add_traces(traces, vs_, gen, dist, nontrivial_key=lambda c: c["objs"][0]["text"] + str([e["w"] for e in c["events"] if e["o"] == 1 and e["a"] == "update"]))
    rep.extra["cases_by_kind"] = {k: sum(1 for c in cases if c["kind"] == k) for k in ("untimed", "timed", "future", "two_signal")}
    rep.extra["schedules_per_case"] = 4 if quick else 6
    return rep.finish("TLC: formula-level machine DenseOnFMC (operational model of the whole online monitor, DenseOn!UpdateC) over formulas x "
                      "signals x every per-variable schedule; every update() of the generated executions below is also given to that "
                      "model and must return exactly its batch (binding diagnostic operational_model_*); operator-level machine DenseOnMC (the pending-interval algorithm of once/historically[a,b], transcribed in "
                      "DenseOn.tla) over all signals x all chunkings incl. empty and sample-repeating batches, for 14 (operator, interval) "
                      "pairs; the behaviours TLC explored are replayed on the real OnceTimedOperation / HistoricallyTimedOperation and "
                      "validated by TraceOp (contract clauses; call-by-call equality with the model as binding diagnostic); "
                      "traces: for each (formula, signal set) the same signals are fed to fresh monitors under several schedules - everything "
                      "at once, one sample per update(), and random independent per-variable splits (variables fed in staggered, possibly "
                      "empty batches); the concatenation of the returned lists must be monotone and denote Dense!SigC of the whole "
                      "signal (delayed by the horizon after pastify()) wherever it is defined, and the schedules are compared with each "
                      "other pairwise as step functions")

if __name__ == "__main__":
    core.main(main)
