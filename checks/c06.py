"""C06: interface-aware semantics differ from standard only at insensitive predicates."""
import itertools, random, sys, os
sys.path.insert(0, os.path.join(os.path.dirname(os.path.abspath(__file__)), "..", "harness"))
import core, mc, runner
from astlib import *
from cases import *

SEMS = ["standard", "out_rob", "in_rob", "out_vac", "in_vac"]


def ia_atoms(rng, g):
    """predicates over no variable / one variable / both, with values that hit 0 exactly"""
    k = rng.random()
    cmpop = rng.choice(g.cmps)
    if k < 0.06:
        # a comparison over the value of a Boolean sub-formula: its variables are those of the sub-formula
        a, b = rng.choice(g.vars), rng.choice(g.vars)
        inner = bi(rng.choice(["xor", "iff", "and", "or", "implies"]), pred("ge", var(a), const(0)), pred("ge", var(b), const(1)))
        return pred(cmpop, inner, const(rng.choice([0, 1])))
    if k < 0.12:
        return pred(cmpop, const(rng.choice([1, 2])), const(rng.choice([1, 2])))
    if k < 0.55:
        return pred(cmpop, var(rng.choice(g.vars)), const(rng.choice([0, 1, 2])))
    if k < 0.8 and len(g.vars) > 1:
        a, b = rng.sample(g.vars, 2)
        return pred(cmpop, bi(rng.choice(["sub", "add"]), var(a), var(b)), const(rng.choice([0, 1])))
    return pred(cmpop, var(rng.choice(g.vars)), var(rng.choice(g.vars)))


def main():
    import astlib
    astlib.AUTO_FUNCS = 0.2       # sqrt exp ln log pow at exact points in a fifth of the generated formulas
    rep = core.Report("C06")
    quick = core.tier() == "quick"
    ax = pred("gt", var("x"), const(1)); ay = pred("le", var("y"), const(1)); axy = pred("ge", bi("sub", var("x"), var("y")), const(0))
    ac = pred("le", const(1), const(2))
    F = [ax, ay, axy, ac, un("not", ax), bi("and", ax, ay), bi("implies", ax, ay), un("once", axy), un("histT", un("not", ay), 0, 1),
         bi("since", ax, ay), bi("or", un("prev", ac), axy), un("rise", ax)]
    cfgs = []
    for sem in SEMS:
        for iox, ioy in itertools.product(["input", "output"], repeat=2):
            cfgs.append(mc.std_cfg(["x", "y"], mode={"sem": sem, "io": {"x": iox, "y": ioy}}))
    r = mc.rtamt_mc("C06_online", F, cfgs, vals=(-2, 1, 3), maxlen=2 if quick else 3, invariants=["InvC02"])
    rep.add_mc("5 semantics x 4 input/output assignments x %d formulas: operational online machine = declarative RhoIA" % len(F), r)
    if r["violated"]:
        rep.mc_violation("C06_online", r)
    # offline half of the machine with the action Reconfigure: an object moves between the input / output assignments (and tolerances) of
    # its semantics between evaluations; every result is the semantics under the configuration in force at that evaluation (InvC01cfg,
    # ActReconf), and the deviation staleConfig (the first configuration memoised) breaks it.  (B): TLC-simulated behaviours with
    # Reconfigure steps are replayed on the real library and validated by TraceDt (event config = set_sampling_period(),
    # set_var_io_type(), parse() again)
    FR = [ax, ay, bi("and", ax, ay), bi("implies", ax, un("alw", ay)), un("ev", axy), bi("until", ax, ay)]
    for sem in (["out_rob"] if quick else [s_ for s_ in SEMS if s_ != "standard"]):
        rc = [mc.std_cfg(["x", "y"], tol=t_, mode={"sem": sem, "io": {"x": iox, "y": ioy}})
              for (iox, ioy, t_) in (("input", "output", 0), ("output", "input", 1), ("input", "input", 0), ("output", "output", 1))]
        r = mc.rtamt_mc("C06_reconf_" + sem, FR, rc, vals=(-2, 3), gaps=(1, 2), maxlen=2, mode="offline",
                        invariants=["InvC01cfg", "InvC13"], properties=["ActReconf"])
        rep.add_mc("offline machine with Reconfigure between 4 configurations (%s): every evaluation under the configuration in force" % sem, r)
        if r["violated"]:
            rep.mc_violation("C06_reconf_" + sem, r)
    rr = mc.rtamt_mc("C06_reconf_dev", FR[:3], rc, vals=(-2, 3), gaps=(1, 2), maxlen=2, mode="offline", dev=["staleConfig"],
                     invariants=["InvC01cfg"], properties=["ActReconf"], expect_violation=True)
    rep.extra["deviation_on_counterexample"] = {"staleConfig": rr["violated"]}
    import behaviours
    bcases = []
    for sem in [s_ for s_ in SEMS if s_ != "standard"]:
        rc = [mc.std_cfg(["x", "y"], tol=t_, mode={"sem": sem, "io": {"x": iox, "y": ioy}})
              for (iox, ioy, t_) in (("input", "output", 0), ("output", "input", 1), ("input", "input", 0), ("output", "output", 1))]
        bres, behs = behaviours.simulate("C06_sim_" + sem, FR + F[:8], ["x", "y"], num=(40 if quick else 400), depth=(6 if quick else 8),
                                         seed=core.seed(), mode="offline", configs=rc, gaps=(1, 2))
        rep.add_mc("TLC simulation of Rtamt.tla, offline half with Reconfigure (%s): behaviours generated for replay" % sem, bres, exhaustive=False)
        if bres["violated"]:
            rep.mc_violation("C06_sim_" + sem, bres)
        bcases += behaviours.to_cases(behs, ["x", "y"], factories=("StlDiscreteTimeSpecification",))
    btr = runner.run_cases(bcases)
    bvs, bgen, bdist = core.validate("C06_sim_replay", btr)
    rep.add_traces(btr, bvs, bgen, bdist, nontrivial_key=lambda c: c["objs"][0]["text"] + str([(e["a"], e.get("io"), e.get("w")) for e in c["events"]]))
    rep.extra["tlc_behaviours_replayed"] = len(bcases)
    rep.extra["tlc_behaviours_with_reconfigure"] = sum(1 for c in bcases if any(e["a"] == "config" for e in c["events"]))

    # dense time: the operational models of the offline and the online monitor (DenseOff!OffCM, DenseOn!UpdateCM with the
    # interface-aware predicate clause) denote Dense!SigC under the 5 semantics x all input/output assignments
    import densemc
    FD = [ax, axy, bi("and", ax, ay), bi("or", un("not", ax), axy), un("onceT", axy, 0, 1), bi("since", ax, ay), un("hist", bi("implies", ax, ay)),
          un("histT", un("onceT", ay, 1, 1), 0, 2)]
    FDs = FD if not quick else [FD[i] for i in sorted(random.Random(core.seed()).sample(range(len(FD)), 4))]
    r = densemc.run_offline("C06_dense_off", FDs + [un("evT", axy, 0, 2), bi("until", ax, ay)], maxt=3, maxn=3, vals=(-2, 1, 3) if not quick else (-2, 3),
                            sems=SEMS, ios=("input", "output"))
    rep.add_mc("DenseOffMC under 5 semantics x input/output assignments: offline operational model denotes SigC", r)
    if r["violated"]:
        rep.mc_violation("C06_dense_off", r)
    r = densemc.run_formulas("C06_dense_on", FDs, maxt=2 if quick else 3, maxn=3, vals=(-2, 3), sems=SEMS, ios=("input", "output"), workers=12)
    rep.add_mc("DenseOnFMC under 5 semantics x input/output assignments x every per-variable schedule (NoErr Mono Agree)", r)
    if r["violated"]:
        rep.mc_violation("C06_dense_on", r)

    rng = random.Random(core.seed() * 7919 + 6)
    n = 2000 if quick else 30000
    cases = []
    for i in range(n):
        S = rng.choice([1, 1, 2])
        vs = list(rng.choice([("x",), ("x", "y"), ("x", "y", "z")]))
        sem = rng.choice(SEMS)
        io = {v: rng.choice(["input", "output"]) for v in vs}
        online = rng.random() < 0.5
        ops = ["not", "and", "or", "implies", "prev", "once", "hist", "since", "onceT", "histT", "sinceT", "rise"]
        if not online:
            ops += ["ev", "alw", "until", "evT", "alwT", "next", "iff"]
        g = Gen(rng, vars_=vs, S=S, ops=ops, ivs=[(0, 0), (0, 1), (1, 2), (0, 3)])
        g.atom = lambda g=g: ia_atoms(rng, g)
        phi = g.formula(rng.choice([0, 1, 1, 2, 3]))
        shaped = len(vs) > 1 and rng.random() < 0.08
        if shaped:
            # one arithmetic term as the left operand of two predicates, one of which also mentions a variable of the other kind
            # (seed C06-h: the variable lists of a shared operand node extended in place)
            a_, b_ = rng.sample(vs, 2)
            io[a_], io[b_] = rng.choice([("input", "output"), ("output", "input")])
            t_ = rng.choice([lambda: bi("mul", var(a_), const(2 * S)) if S == 1 else bi("add", var(a_), var(a_)), lambda: bi("add", var(a_), const(S)),
                             lambda: un("abs", var(a_)), lambda: bi("sub", var(a_), const(S))])()
            p1 = pred(rng.choice(g.cmps), t_, var(b_))
            p2 = pred(rng.choice(g.cmps), t_, const(rng.choice([0, 1, 2]) * S))
            phi = bi(rng.choice(["or", "and", "implies"]), *((p1, p2) if rng.random() < 0.7 else (p2, p1)))
            if rng.random() < 0.3:
                phi = un(rng.choice(["once", "hist", "not"]), phi)
        if not shaped and "x" in vars_of(phi) and rng.random() < 0.08:
            # the signal x is the field x of an object-typed variable o (o.x >= 1) that is declared an input or an output
            # (seed r11 C06-2: the kind looked up under the dotted name, which is no key of the table)
            import copy as _copy
            phi = _copy.deepcopy(phi)
            for q_ in subformulas(phi):
                if q_["op"] == "var" and q_["v"] == "x":
                    q_["v"] = "o.x"
            vs = [("o.x" if v_ == "x" else v_) for v_ in vs]
            io = {("o.x" if v_ == "x" else v_): t_ for v_, t_ in io.items()}
        N = rng.choice([1, 2, 3, 5, 8])
        w = gen_trace(rng, vs, N, S, lo=-2, hi=3)
        mode = {"sem": sem, "io": io}
        o = dt_obj(phi, S, vs, factory="StlDiscreteTimeSpecification", mode=mode, set_io=True,
                   explicit_standard=(sem == "standard" and rng.random() < 0.5))
        if shaped or rng.random() < 0.12:
            # the same specification with named sub-formulas and named arithmetic terms (shared nodes)
            from modular import decompose
            subs, main_, _cd, _nm = decompose(rng, phi, S, consts=False, arith=True)
            if subs:
                if rng.random() < 0.5:
                    o["subs"] = [s_ + ";" for s_ in subs]; o["text"] = "out = " + main_
                else:
                    o["text"] = " ; ".join(subs + ["out = " + main_])
        objs = [o]
        if online:
            evs = [ev_parse()] + [ev_update(t, sample_at(w, t)) for t in range(N)]
        else:
            evs = [ev_parse(), ev_evaluate(range(N), w)]
        if sem != "standard" and rng.random() < 0.12:
            # the input / output declarations are changed on the parsed object, which is parsed again (before it is fed, or between
            # two offline evaluations): the predicates follow the declarations in force (seed r9 C06-2: a Variable leaf memoised
            # across parse() calls); the object starts with other declarations
            io_new = dict(io)
            io0 = {v: rng.choice(["input", "output"]) for v in vs}
            if io0 == io_new:
                v_ = rng.choice(vs); io0[v_] = "input" if io_new[v_] == "output" else "output"
            o["mode"] = {"sem": sem, "io": io0}
            cfg_ev = {"o": 1, "a": "config", "io": io_new}
            if online or rng.random() < 0.5:
                evs = [evs[0], cfg_ev] + evs[1:]
            else:
                evs = [evs[0], ev_evaluate(range(N), gen_trace(rng, vs, N, S, lo=-2, hi=3)), cfg_ev] + evs[1:]
        rels = []
        if sem == "standard":
            # STANDARD: a second object with the opposite input/output declarations must behave identically
            io2 = {v: ("input" if io[v] == "output" else "output") for v in vs}
            objs.append(dt_obj(phi, S, vs, factory="StlDiscreteTimeSpecification", mode={"sem": "standard", "io": io2}, set_io=True))
            evs2 = []
            for e in evs:
                e2 = dict(e); e2["o"] = 2
                evs2.append(e2)
            evs = evs + evs2
            rels = [{"rel": "same_on" if online else "same_off", "x": 1, "y": 2}]
        cases.append(case(objs, evs, rels, skip=["evaluate.viol"]))
    # ---- pastified monitors: bounded-future formulas, predicates whose operands have different horizons
    import c03 as _c03
    for i in range(n // 4):
        S = rng.choice([1, 2])
        vs = list(rng.choice([("x",), ("x", "y")]))
        sem = rng.choice(SEMS)
        io = {v: rng.choice(["input", "output"]) for v in vs}
        g = Gen(rng, vars_=vs, S=S, ops=["not", "and", "or", "implies", "evT", "alwT", "next", "once", "prev"], ivs=[(0, 1), (1, 2), (0, 2)])
        def atom(g=g):
            if rng.random() < 0.4:       # a look-ahead inside the predicate: (next x) - x <= c
                a_, b_ = rng.choice(vs), rng.choice(vs)
                t_ = bi(rng.choice(["sub", "add"]), un("next", var(a_)), var(b_))
                if rng.random() < 0.5:
                    t_ = un("abs", t_)
                return pred(rng.choice(g.cmps), t_, const(rng.choice([0, 1, 2])))
            return ia_atoms(rng, g)
        g.atom = atom
        for _ in range(40):
            phi = g.formula(rng.choice([0, 1, 1, 2]))
            if (ops_of(phi) & FUT) and not _c03.past_over_future(phi) and vars_of(phi):
                break
        else:
            continue
        vs_u = vars_of(phi)
        h = horizon(phi)
        N = h + rng.choice([1, 2, 3, 5])
        w = gen_trace(rng, vs_u, N, S, lo=-2, hi=3)
        o = dt_obj(phi, S, vs_u, factory="StlDiscreteTimeSpecification", mode={"sem": sem, "io": {v: io.get(v, "output") for v in vs_u}}, set_io=True)
        evs = [ev_parse(), ev_pastify()] + [ev_update(t, sample_at(w, t)) for t in range(N)]
        cases.append(case([o], evs, skip=["update.viol"]))
    # ---- dense time: offline evaluate() and online update() (one batch or a random partition into batches) under the 5 semantics
    dcases = []
    for i in range(n // 3):
        S = rng.choice([1, 1, 2])
        vs = list(rng.choice([("x",), ("x", "y")]))
        sem = rng.choice(SEMS)
        io = {v: rng.choice(["input", "output"]) for v in vs}
        online = rng.random() < 0.5
        ops = ["not", "and", "or", "implies", "once", "hist", "since", "onceT", "histT"]
        if not online:
            ops += ["ev", "alw", "until", "evT", "alwT"]
        g = Gen(rng, vars_=vs, S=S, ops=ops, ivs=[(0, 1), (1, 2), (0, 3)])
        g.atom = lambda g=g: ia_atoms(rng, g)
        phi = g.formula(rng.choice([0, 1, 1, 2]))
        if not vars_of(phi):
            continue
        vs = vars_of(phi)
        io = {v: io.get(v, "output") for v in vs}
        end = rng.choice([3, 5, 8])
        w = {v: gen_signal(rng, rng.choice([2, 3, 4]), t0=0, S=S, end=end, lo=-2, hi=3) for v in vs}
        o = ct_obj(phi, S, vs, factory="StlDenseTimeSpecification", mode={"sem": sem, "io": io}, set_io=True)
        evs = [ev_parse(), ev_ct("update" if online else "evaluate", w)]
        if online and rng.random() < 0.5:
            import c05 as _c05
            sc_ = {v: rng.choice(_c05.splits(len(w[v]))) for v in vs}
            # (lagging per-variable batches: some update() calls carry nothing new for a predicate's variables)
            evs = [ev_parse()] + (_c05.staggered_events(rng, w, sc_, 1) if len(vs) > 1 and rng.random() < 0.6 else _c05.schedule_events(w, sc_, 1))
        if not online and sem != "standard" and rng.random() < 0.15:
            io0 = {v: rng.choice(["input", "output"]) for v in vs}
            if io0 == io:
                v_ = rng.choice(vs); io0[v_] = "input" if io[v_] == "output" else "output"
            o["mode"] = {"sem": sem, "io": io0}
            cfg_ev = {"o": 1, "a": "config", "io": dict(io)}
            evs = [evs[0]] + ([ev_ct("evaluate", w)] if rng.random() < 0.5 else []) + [cfg_ev] + evs[1:]
        dcases.append(case([o], evs, kind="ct_on" if online else "ct_off"))
    # shaped: a predicate that is insensitive under the semantics (it mentions only variables of the other kind) next to a predicate
    # over another variable, fed by update() calls that alternate between the two variables - the insensitive predicate gets calls
    # without new samples after calls with new samples (seed C06-g)
    import c05 as _c05
    for i in range(n // 8):
        S = rng.choice([1, 2])
        sem = rng.choice([s_ for s_ in SEMS if s_ != "standard"])
        kind_ = "input" if sem.startswith("out") else "output"          # the kind of variable the semantics is insensitive to
        other = "output" if kind_ == "input" else "input"
        io = {"x": kind_, "y": rng.choice([kind_, other])}
        cx, cy = rng.choice([0, 1, 2]) * S, rng.choice([0, 1]) * S
        px = pred(rng.choice(["ge", "le", "gt", "lt"]), var("x"), const(cx)) if rng.random() < 0.7 else \
             pred(rng.choice(["ge", "le"]), bi("add", var("x"), var("x")), const(cx))
        py = pred(rng.choice(["ge", "le", "gt", "lt"]), var("y"), const(cy))
        phi = bi(rng.choice(["and", "or", "implies", "since"]), *((px, py) if rng.random() < 0.5 else (py, px)))
        if rng.random() < 0.4:
            phi = un(rng.choice(["onceT", "histT"]), phi, 0, 1) if rng.random() < 0.3 else un(rng.choice(["once", "hist", "not"]), phi)
        end = rng.choice([4, 6, 8])
        w = {v: gen_signal(rng, rng.choice([3, 4, 5]), t0=0, S=S, end=end, lo=-2, hi=3) for v in ("x", "y")}
        # alternate: a few samples of x, a few of y, ...
        evs, pos = [ev_parse()], {"x": 0, "y": 0}
        turn = rng.choice(["x", "y"])
        while any(pos[v] < len(w[v]) for v in w):
            if pos[turn] < len(w[turn]):
                k_ = rng.choice([1, 1, 2])
                batch = {v: [] for v in w}
                batch[turn] = w[turn][pos[turn]:pos[turn] + k_]; pos[turn] += k_
                if rng.random() < 0.3:
                    batch = {turn: batch[turn]}              # the other variable is left out of the call
                evs.append(ev_ct("update", batch, 1))
            turn = "y" if turn == "x" else "x"
        o = ct_obj(phi, S, ["x", "y"], factory="StlDenseTimeSpecification", mode={"sem": sem, "io": io}, set_io=True)
        dcases.append(case([o], evs, kind="ct_on"))
    dtr = runner.run_cases(dcases)
    dvs, dgen, ddist = core.validate("C06_dense", dtr, module="TraceCt")
    rep.add_traces(dtr, dvs, dgen, ddist, nontrivial_key=lambda c: c["objs"][0]["text"] + str(c["objs"][0]["mode"]) + str(c["events"][-1]["w"]))
    rep.extra["dense_cases"] = {k: sum(1 for c in dcases if c["kind"] == k) for k in ("ct_on", "ct_off")}
    traces = runner.run_cases(cases)
    vs_, gen, dist = core.validate("C06", traces)
    rep.add_traces(traces, vs_, gen, dist, nontrivial_key=lambda c: c["objs"][0]["text"] + str(c["objs"][0]["mode"]) + str(c["events"][-1].get("w", c["events"][-1].get("s"))))
    rep.extra["cases_per_semantics"] = {s_: sum(1 for c in cases if c["objs"][0]["mode"]["sem"] == s_) for s_ in SEMS}
    return rep.finish("TLC: online operator machine with the interface-aware predicate clause = Sem!Sig under the same mode, for the 5 semantics "
                      "x all input/output assignments x all short traces; traces: discrete-time offline and online monitors of the 5 semantics "
                      "with random input/output declarations, predicates over no / input-only / output-only / mixed variables and values "
                      "hitting robustness 0 exactly; STANDARD additionally compared with the opposite declarations")

if __name__ == "__main__":
    core.main(main)
