"""C07: robustness sign and magnitude are sound w.r.t. Boolean satisfaction."""
import random, sys, os
sys.path.insert(0, os.path.join(os.path.dirname(os.path.abspath(__file__)), "..", "harness"))
import core, semmc, runner
from astlib import *
from cases import *
import c03 as _c03, c08 as _c08

OPS = [o for o in UN_BOOL + UN_TIMED + BIN_BOOL + ["sinceT", "untilT", "unlessT"] if o not in ("iff", "xor")]


def main():
    import astlib
    astlib.AUTO_FUNCS = 0.2       # sqrt exp ln log pow at exact points in a fifth of the generated formulas
    rep = core.Report("C07")
    quick = core.tier() == "quick"
    ax, ay = pred("ge", var("x"), const(0)), pred("lt", var("y"), const(1))
    az = pred("ne", var("x"), const(1))
    forms = []
    for a in (ax, ay, az, pred("eq", var("y"), const(1)), pred("gt", var("x"), un("neg", const(2)))):
        forms.append(a)
        for op in ["not", "rise", "fall", "prev", "sprev", "next", "snext", "once", "hist", "ev", "alw"]:
            forms.append(un(op, a))
        for op in UN_TIMED:
            forms.append(un(op, a, 0, 1)); forms.append(un(op, a, 1, 2))
    for op in ["and", "or", "implies", "since", "until"]:
        forms.append(bi(op, ax, ay)); forms.append(bi(op, un("not", ax), ay))
    for op in ["sinceT", "untilT"]:
        forms.append(bi(op, ax, ay, 0, 1)); forms.append(bi(op, ax, ay, 1, 2))
    forms += [un("not", bi("implies", ax, un("ev", ay))), un("alw", bi("implies", ax, un("evT", un("not", ay), 0, 2))),
              bi("implies", un("not", un("hist", ax)), un("not", un("once", ay)))]
    if quick:
        forms = forms[::2]
    r = semmc.run("C07_sign", forms=forms, maxlen=3 if quick else 4, invariants=["SignSound"])
    rep.add_mc("SignSound: %d formulas x all traces over {-2,1,3}^2" % len(forms), r)
    if r["violated"]:
        rep.mc_violation("C07_sign", r)
    # magnitude on the half-integer lattice (scale 2: values -4,2,6 = -2,1,3; lattice -6..8 step 1 = step 1/2)
    vcp = [f for f in forms if all(q["op"] != "pred" or (q["l"]["op"] == "var") for q in subformulas(f))][: (8 if quick else 40)]
    def scale2(p):
        p = dict(p)
        if p["op"] == "const":
            p["c"] = p["c"] * 2
        for k in ("l", "r"):
            if k in p:
                p[k] = scale2(p[k])
        return p
    r = semmc.run("C07_ball", forms=[scale2(f) for f in vcp], vars_=("x", "y"), vals=(-4, 2, 6), lattice=tuple(range(-7, 10)), maxlen=2,
                  S=2, invariants=["BallSound"])
    rep.add_mc("BallSound: %d var-const formulas x all traces len<=2 x all half-integer perturbations inside the ball" % len(vcp), r)
    if r["violated"]:
        rep.mc_violation("C07_ball", r)

    rng = random.Random(core.seed() * 7919 + 7)
    n = 2400 if quick else 30000
    cases = []
    for i in range(n):
        S = rng.choice([1, 2, 2])
        vcpred = rng.random() < 0.6
        g = Gen(rng, vars_=rng.choice([("x",), ("x", "y")]), S=S, ops=OPS, ivs=[(0, 0), (0, 1), (1, 2), (0, 3), (2, 2)],
                var_const_preds=vcpred, bool_atoms=False)
        online = rng.random() < 0.5
        past = online and rng.random() < 0.4          # the online monitor after pastify(): the sign at step k speaks about sample k - h
        if online and not past:
            g.ops = [o for o in OPS if o not in FUT]
        if past:
            g.ops = [o for o in OPS if o not in UNB_FUT]
            for _ in range(40):
                phi = g.formula(rng.choice([1, 2, 2, 3]))
                if (ops_of(phi) & FUT) and not _c03.past_over_future(phi):
                    break
            else:
                continue
            if rng.random() < 0.4:
                phi = _c08.shaped_past(rng, g)        # a bounded past operator / next shifted by the horizon of a sibling (seed C07-e)
        else:
            phi = g.formula(rng.choice([1, 2, 2, 3, 4]))
        vs = vars_of(phi) or ["x"]
        N = rng.choice([1, 2, 3, 4, 6, 8]) + (horizon(phi) if past else 0)
        w = gen_trace(rng, vs, N, S, lo=-3, hi=3)
        if online:
            fac = rng.choice(["StlDiscreteTimeSpecification", "StlDiscreteTimeOnlineSpecification"])
            evs = [ev_parse()] + ([ev_pastify()] if past else []) + [ev_update(t, sample_at(w, t)) for t in range(N)]
        else:
            fac = rng.choice(["StlDiscreteTimeSpecification", "StlDiscreteTimeOfflineSpecification"])
            evs = [ev_parse(), ev_evaluate(range(N), w)]
        cases.append(case([dt_obj(phi, S, vs, factory=fac)], evs, vcp=vcpred, online=online, skip=["evaluate.viol", "evaluate.ret", "update.ret", "update.viol"]))
    traces = runner.run_cases(cases)
    # perturbations inside the ball of radius |reported value| around the recorded trace, on the lattice 1/(2S):
    # proposed here from the *reported* number, judged by the trace specification
    nballs = 0
    for c in traces:
        if c["online"] or not c["vcp"]:
            continue
        e = c["events"][-1]
        if e.get("exc") or not e.get("ret"):
            continue
        o = c["objs"][0]
        S2 = 1  # lattice of the case's own scale (finest the codec carries)
        N = len(e["ts"])
        for t in range(N):
            v = e["ret"][t]
            if not isinstance(v, int) or abs(v) >= 10 ** 7 or v == 0:
                continue
            rad = abs(v) - 1          # strictly inside the ball, in scaled lattice units
            for _ in range(3):
                mode = rng.choice(["ext", "rnd", "one"])
                X = {}
                for u in o["vars"]:
                    xs = []
                    for k in range(N):
                        base = e["w"][u][k]
                        if mode == "ext":
                            d = rng.choice([-rad, rad])
                        elif mode == "rnd":
                            d = rng.randint(-rad, rad)
                        else:
                            d = rng.choice([-rad, rad]) if rng.random() < 0.3 else 0
                        xs.append(base + d)
                    X[u] = xs
                c["rels"].append({"rel": "ball", "x": 1, "t": t + 1, "X": X})
                nballs += 1
    # ---- dense time (offline and online): sign of the returned step function against Dense!SatC
    dcases = []
    DOPS = ["not", "and", "or", "implies", "once", "hist", "ev", "alw", "since", "until", "onceT", "histT", "evT", "alwT", "sinceT", "untilT", "unlessT"]
    PAST_DOPS = ["not", "and", "or", "implies", "once", "hist", "since", "onceT", "histT", "sinceT"]
    for i in range(n // 4):
        S = rng.choice([1, 2])
        g = Gen(rng, vars_=rng.choice([("x",), ("x", "y")]), S=S, ops=DOPS if rng.random() < 0.55 else PAST_DOPS, ivs=[(0, 1), (1, 2), (0, 3), (2, 2)],
                bool_atoms=False, var_const_preds=rng.random() < 0.6)
        phi = g.formula(rng.choice([1, 2, 2, 3]))
        if not vars_of(phi):
            continue
        vs = vars_of(phi)
        end = rng.choice([3, 5, 8])
        w = {v: gen_signal(rng, rng.choice([2, 3, 4, 6]), t0=0, S=S, end=end, lo=-3, hi=3) for v in vs}
        if not (ops_of(phi) & FUT) and rng.random() < 0.7:
            # the online monitor, fed by a random partition of the signals into (lagging) per-variable batches
            import c05 as _c05
            sc = {v: rng.choice(_c05.splits(len(w[v]))) for v in vs}
            evs = _c05.staggered_events(rng, w, sc, 1) if len(vs) > 1 and rng.random() < 0.5 else _c05.schedule_events(w, sc, 1)
            dcases.append(case([ct_obj(phi, S, vs)], [ev_parse()] + evs, skip=["update.value"], kind="ct_on"))
            continue
        dcases.append(case([ct_obj(phi, S, vs)], [ev_parse(), ev_ct("evaluate", w)], skip=["evaluate.value", "evaluate.start"], kind="ct_off"))
    dtr = runner.run_cases(dcases)
    dvs, dgen, ddist = core.validate("C07_dense", dtr, module="TraceCt")
    rep.add_traces(dtr, dvs, dgen, ddist, nontrivial_key=lambda c: c["objs"][0]["text"] + str(c["events"][-1]["w"]))
    rep.extra["dense_cases"] = {k: sum(1 for c in dcases if c["kind"] == k) for k in ("ct_off", "ct_on")}
    vs_, gen, dist = core.validate("C07", traces)
    rep.add_traces(traces, vs_, gen, dist, nontrivial_key=lambda c: c["objs"][0]["text"] + str(c["events"][-1].get("w", c["events"][-1].get("s"))))
    rep.extra["perturbed_traces_checked"] = nballs
    rep.assumptions.append("'all perturbations' is decided on the lattice 1/S around each recorded trace (extreme corners + random points) and, in the model, on all half-integer perturbations for traces of length <= 2")
    return rep.finish("TLC: theorems SignSound and BallSound of Sem on all short traces; traces: sign of every recorded evaluate()/update() value "
                      "against the Boolean semantics Sem!Sat (independent of Sig), and Sat-invariance on perturbed traces inside the ball whose radius is the value the implementation reported")

if __name__ == "__main__":
    core.main(main)
