"""C08: temporal bounds denote physical durations whatever the unit notation."""
import copy, random, sys, os
from fractions import Fraction
sys.path.insert(0, os.path.join(os.path.dirname(os.path.abspath(__file__)), "..", "harness"))
import core, runner
from astlib import *
from cases import *
import c03 as _c03

E = {"s": 9, "ms": 6, "us": 3, "ns": 0}
PERIODS = [(1, "s"), (1, "s"), (500, "ms"), (1000, "ms"), (2, "ms"), (250, "us"), (1, "ms"), (2, "s"), (100, "ms"), (4100, "ms"), (67, "ms")]


def lit_text(rng, f):
    """a literal denoting the non-negative Fraction f (finite decimal)"""
    if f.denominator == 1:
        n = f.numerator
        return rng.choice([str(n), str(n), "%d.0" % n, "%d." % n] + (["%de0" % n] if n > 0 else []))
    s = ("%.6f" % float(f)).rstrip("0")
    return s if rng.random() < 0.8 or not s.startswith("0.") else s[1:]


def spell(rng, ns, default, allow_bad_units=True):
    """(value Fraction, unit) with value * 10^E[unit] = ns, value a short decimal"""
    units = [u for u in ("s", "ms", "us", "ns")
             if Fraction(ns, 10 ** E[u]) <= 50000 and (Fraction(ns, 10 ** E[u]) * 1000).denominator == 1]
    u = rng.choice(units) if units else "ns"
    return Fraction(ns, 10 ** E[u]), u


def spell_interval(rng, node, a_ns, b_ns, default, force=None):
    """fills aw, bw, au, bu (for the model) and at, bt (literal texts) of a timed node"""
    style = rng.choice(["both", "both", "end", "begin", "none"])
    if force and rng.random() < 0.7:
        style = force
    if style == "none":
        ua = ub = default
        fa, fb = Fraction(a_ns, 10 ** E[default]), Fraction(b_ns, 10 ** E[default])
        if (fa * 1000).denominator != 1 or (fb * 1000).denominator != 1 or fb > 50000:
            style = "both"
    if style == "both":
        fa, ua = spell(rng, a_ns, default); fb, ub = spell(rng, b_ns, default)
        sa, sb = ua, ub
    elif style == "end":
        fb, ub = spell(rng, b_ns, default)
        fa = Fraction(a_ns, 10 ** E[ub]); ua = ub
        if (fa * 1000).denominator != 1:
            return spell_interval(rng, node, a_ns, b_ns, default)
        sa, sb = "", ub
    elif style == "begin":
        fa, ua = spell(rng, a_ns, default)
        fb = Fraction(b_ns, 10 ** E[ua]); ub = ua
        if (fb * 1000).denominator != 1 or fb > 50000:
            return spell_interval(rng, node, a_ns, b_ns, default)
        sa, sb = ua, ""
    else:
        sa = sb = ""
    node["aw"] = [fa.numerator, fa.denominator]; node["bw"] = [fb.numerator, fb.denominator]
    node["au"] = sa; node["bu"] = sb
    node["at"] = lit_text(rng, fa); node["bt"] = lit_text(rng, fb)
    node["fa"] = str(float(fa)) if fa.denominator != 1 else str(fa.numerator)
    node["fb"] = str(float(fb)) if fb.denominator != 1 else str(fb.numerator)
    return style


def shaped_past(rng, g):
    """pastification shapes in which a bounded past operator, or next, must be shifted by the horizon of a sibling: the shift is
    computed in the default unit while the bounds are written in another one"""
    at = lambda: g.atom()
    iv = lambda: rng.choice([(0, 1), (1, 2), (0, 2), (2, 2), (1, 3)])
    fut = rng.choice([lambda: un("evT", at(), *iv()), lambda: un("alwT", at(), *iv()), lambda: bi("untilT", at(), at(), *iv()),
                      lambda: un("next", un("evT", at(), *iv()))])()
    sib = rng.choice([lambda: un("onceT", at(), *iv()), lambda: un("histT", at(), *iv()), lambda: bi("sinceT", at(), at(), *iv()),
                      lambda: un("next", at()), lambda: un("next", at()), lambda: un("not", un("onceT", at(), *iv()))])()
    phi = bi(rng.choice(["and", "or", "implies"]), *((sib, fut) if rng.random() < 0.5 else (fut, sib)))
    if rng.random() < 0.3:
        phi = un(rng.choice(["evT", "alwT"]), phi, 0, rng.choice([1, 2]))
    return phi


def write_ast(rng, phi, period_ns, default, halfstep=None, force=None):
    """copy of phi (bounds in samples) with every timed node spelled out; halfstep: node index to make a non-multiple"""
    w = copy.deepcopy(phi)
    styles = []
    k = 0
    for q in subformulas(w):
        if q["op"] in TIMED:
            a_ns, b_ns = q["a"] * period_ns, q["b"] * period_ns
            if halfstep == k:
                # a bound that is not a whole number of periods: the end, the begin only (if there is room), or both by the same
                # half period (their difference - all that is left of them after pastification - is then a whole number)
                r_ = rng.random()
                if r_ < 0.35:
                    a_ns += period_ns // 2; b_ns += period_ns // 2
                elif q["a"] < q["b"] and r_ < 0.65:
                    a_ns += period_ns // 2
                else:
                    b_ns += period_ns // 2
            styles.append(spell_interval(rng, q, a_ns, b_ns, default, force))
            k += 1
    return w, styles


def main():
    import astlib
    astlib.AUTO_FUNCS = 0.2       # sqrt exp ln log pow at exact points in a fifth of the generated formulas
    rep = core.Report("C08")
    quick = core.tier() == "quick"
    # theorems of Units.tla on a finite domain: unit-independence of a duration, period notation, unit resolution
    import tlc, shutil
    wd = tlc.workdir("C08_units")
    for f_ in ("UnitsMC.tla", "UnitsMC.cfg"):
        shutil.copy(os.path.join(tlc.SPEC, f_), wd)
    r = tlc.run(wd, "UnitsMC", workers=1, timeout=600)
    tlc.ok_or_machinery(r, "UnitsMC")
    rep.add_mc("UnitsMC: UnitsThm, PeriodThm, ResolveThm (one state, quantified over durations x periods x units)", r)
    if r["violated"]:
        rep.mc_violation("UnitsMC", r)
    shutil.rmtree(wd, ignore_errors=True)
    rng = random.Random(core.seed() * 7919 + 8)
    n = 900 if quick else 12000
    cases = []
    for i in range(n):
        S = 1
        kind = rng.choice(["off", "on", "past", "off", "on"])
        ops = ["not", "and", "or", "onceT", "histT", "sinceT", "once", "prev"]
        if kind == "off":
            ops += ["evT", "alwT", "untilT", "next", "unlessT"]
        if kind == "past":
            ops += ["evT", "alwT", "untilT", "next", "unlessT"]
        g = Gen(rng, vars_=("x", "y"), S=S, ops=ops, ivs=[(0, 1), (1, 2), (0, 2), (2, 2), (1, 3), (0, 4)], bool_atoms=False)
        for _ in range(40):
            phi = g.formula(rng.choice([1, 2, 2, 3]))
            if not (ops_of(phi) & TIMED):
                continue
            if kind == "past" and (not (ops_of(phi) & FUT) or _c03.past_over_future(phi)):
                continue
            if kind == "on" and (ops_of(phi) & FUT):
                continue
            break
        else:
            continue
        if kind == "past" and rng.random() < 0.4:
            phi = shaped_past(rng, g)
        vs = vars_of(phi) or ["x"]
        pnum, punit = rng.choice(PERIODS)
        period_ns = pnum * 10 ** E[punit]
        nt = sum(1 for q in subformulas(phi) if q["op"] in TIMED)
        bad = rng.random() < (0.6 if kind == "past" and ({"next", "snext"} & ops_of(phi)) else 0.12) and period_ns % 2 == 0
        K = rng.choice([2, 2, 3])
        objs = []
        for k in range(K):
            default = rng.choice(["s", "ms", "us"]) if rng.random() < 0.6 else "s"
            # the period itself in another notation
            alts = [(pnum, punit)] + [(pnum * 10 ** (E[punit] - E[u]), u) for u in ("ms", "us", "ns") if E[u] < E[punit] and pnum * 10 ** (E[punit] - E[u]) <= 100000]
            pn2, pu2 = rng.choice(alts)
            written, styles = write_ast(rng, phi, period_ns, default, halfstep=(rng.randrange(nt) if bad and k == 0 else None))
            cdecl = []
            if rng.random() < 0.3:      # some bounds given by declared constants (the written unit, if any, follows the name)
                for j, q in enumerate([q for q in subformulas(written) if q["op"] in TIMED]):
                    for which in ("a", "b"):
                        if rng.random() < 0.4:
                            nm = "c%d%s" % (j, which)
                            cdecl.append([nm, q["f" + which]] + (["float"] if rng.random() < 0.5 else []))   # value as text or as a float
                            q[which + "t"] = nm
            o = dt_obj(phi, S, vs, text="out = " + to_text(written, S), written=written,
                       units={"def": default, "pnum": pn2, "pden": 1, "punit": pu2}, unit=default, set_period=[pn2, pu2, 0.1], styles=styles,
                       consts=cdecl)
            if pu2 != "ns" and rng.random() < 0.3:
                # the period in the next larger unit as a float: 500 ms = 0.5 s, 4100 ms = 4.1 s (not exact in binary)
                big = {"ms": "s", "us": "ms"}.get(pu2)
                if big:
                    o["set_period"] = [pn2 / 1000.0, big, 0.1]
            elif rng.random() < 0.2:
                o["period_as_float"] = True          # 2 -> 2.0
            if rng.random() < 0.5:
                o["period_first"] = True             # set_sampling_period() before spec.unit = ... (seed r9 C08-2)
            objs.append(o)
        h = horizon(phi)
        N = rng.choice([2, 3, 5, 8]) + (h if kind == "past" else 0)
        w = gen_trace(rng, vs, N, S, lo=-6, hi=6)
        evs, rels = [], []
        if kind == "off":
            fac = rng.choice(["StlDiscreteTimeSpecification", "StlDiscreteTimeOfflineSpecification"])
            evs = [ev_parse(k + 1) for k in range(K)] + [ev_evaluate(range(N), w, k + 1) for k in range(K)]
            rels = [{"rel": "same_off", "x": 1 + int(bad), "y": k + 1} for k in range(1 + int(bad), K)]
        else:
            fac = rng.choice(["StlDiscreteTimeSpecification", "StlDiscreteTimeOnlineSpecification"])
            evs = [ev_parse(k + 1) for k in range(K)] + ([ev_pastify(k + 1) for k in range(K)] if kind == "past" else [])
            for t in range(N):
                evs += [ev_update(t, sample_at(w, t), k + 1) for k in range(K)]
            rels = [{"rel": "same_on_from", "x": 1 + int(bad), "y": k + 1, "k": (h + 1 if kind == "past" else 1)} for k in range(1 + int(bad), K)]
            if bad and kind == "past" and period_ns % 2 == 0 and rng.random() < 0.9:
                # object 1, whose pastify() is refused for a bound of k + 1/2 periods, is given half the sampling period - every bound is
                # then a whole number of periods - and pastified again (seed r10 C03-2: horizons recorded by the refused call survived)
                half = period_ns // 2
                hu = [u for u in ("s", "ms", "us", "ns") if half % 10 ** E[u] == 0 and half // 10 ** E[u] <= 100000][0]
                evs = [e_ for e_ in evs if not (e_["o"] == 1 and e_["a"] == "update")]
                evs.append({"o": 1, "a": "config", "set_period": [half // 10 ** E[hu], hu, 0.1],
                            "units": {"def": objs[0]["unit"], "pnum": half // 10 ** E[hu], "pden": 1, "punit": hu}})
                evs.append(ev_pastify(1))
                N2 = 2 * h + rng.choice([3, 4, 6])
                w2 = gen_trace(rng, vs, N2, S, lo=-6, hi=6)
                evs += [ev_update(t, sample_at(w2, t), 1) for t in range(N2)]
        if kind == "off" and not bad and rng.random() < 0.45:
            # one more object that is first configured with half the sampling period and evaluated, then re-configured to the
            # case's period and evaluated on the case's data: the bounds are resolved at every evaluate(), so the result is that
            # of the other spellings (seeds C08-h, C01-h: sample counts memoised across evaluations)
            half = period_ns // 2
            hu = [u for u in ("s", "ms", "us", "ns") if half % 10 ** E[u] == 0 and half // 10 ** E[u] <= 100000][0]
            default = rng.choice(["s", "ms"])
            N0 = rng.choice([2, 3, 5])
            pn2, pu2 = rng.choice([(pnum, punit)] + [(pnum * 10 ** (E[punit] - E[u]), u) for u in ("ms", "us") if E[u] < E[punit] and pnum * 10 ** (E[punit] - E[u]) <= 100000])
            if rng.random() < 0.5 and not (ops_of(phi) & {"sinceT", "untilT", "unlessT"}):
                # ... or first configured with the next larger *default unit* (bounds written without a unit then mean 1000 times as
                # many samples), evaluated, and then given the case's default unit (seed r9 C16-1: a memo of the sample counts that
                # set_sampling_period() clears and spec.unit = ... does not)
                default = rng.choice(["ms", "us"])
                bigger = {"ms": "s", "us": "ms"}[default]
                written, styles = write_ast(rng, phi, period_ns, default, force="none")
                oR = dt_obj(phi, S, vs, text="out = " + to_text(written, S), written=written, unit=bigger, styles=styles, consts=[],
                            units={"def": bigger, "pnum": pn2, "pden": 1, "punit": pu2}, set_period=[pn2, pu2, 0.1])
                cfg = {"a": "config", "unit": default, "units": {"def": default, "pnum": pn2, "pden": 1, "punit": pu2}}
            else:
                written, styles = write_ast(rng, phi, period_ns, default)
                oR = dt_obj(phi, S, vs, text="out = " + to_text(written, S), written=written, unit=default, styles=styles, consts=[],
                            units={"def": default, "pnum": half // 10 ** E[hu], "pden": 1, "punit": hu}, set_period=[half // 10 ** E[hu], hu, 0.1])
                cfg = {"a": "config", "set_period": [pn2, pu2, 0.1], "units": {"def": default, "pnum": pn2, "pden": 1, "punit": pu2}}
            objs.append(oR)
            kR = len(objs)
            cfg["o"] = kR
            evs += [ev_parse(kR), ev_evaluate(range(N0), gen_trace(rng, vs, N0, S, lo=-6, hi=6), kR), cfg, ev_evaluate(range(N), w, kR)]
            rels.append({"rel": "same_off", "x": 1, "y": kR})
        for o in objs:
            o["factory"] = fac
        kw = {}
        if rng.random() < 0.3:
            # first a twin of object 1 under the next larger default unit (the same text then means 1000 times as many samples)
            bigger = {"ms": "s", "us": "ms"}.get(objs[0]["unit"])
            if bigger:
                kw["intruder"] = {"unit": bigger, "offline": kind == "off", "pastify": kind == "past"}
        cases.append(case(objs, evs, rels, kind=kind, bad=bad, skip=["evaluate.viol", "update.viol"], timeout=8, **kw))
    # ---- dense time: the same durations in different notations, default unit s / ms, stamps in the default unit
    dcases = []
    for i in range(n // 3):
        ops = ["not", "and", "or", "onceT", "histT", "evT", "alwT", "sinceT", "untilT", "once"]
        g = Gen(rng, vars_=("x", "y"), S=1, ops=ops, ivs=[(0, 1), (1, 2), (0, 2), (2, 2), (1, 3)], bool_atoms=True)
        for _ in range(40):
            phi = g.formula(rng.choice([1, 2, 2]))
            if (ops_of(phi) & TIMED) and vars_of(phi):
                break
        else:
            continue
        vs = vars_of(phi)
        default = rng.choice(["s", "ms", "s"])
        unit_ns = 10 ** E[default]
        K = rng.choice([2, 3])
        # a third of the dense cases on the online monitor (the whole signal in one update()), if the formula is a past one
        online = not (ops_of(phi) & FUT) and rng.random() < 0.5
        objs = []
        for k in range(K):
            written, styles = write_ast(rng, phi, unit_ns, default)
            o = ct_obj(phi, 1, vs, text="out = " + to_text(written, 1), written=written,
                       units={"def": default, "pnum": 1, "pden": 1, "punit": default}, unit=default, styles=styles,
                       factory=rng.choice(["StlDenseTimeSpecification", "StlDenseTimeOnlineSpecification" if online else "StlDenseTimeOfflineSpecification"]))
            objs.append(o)
        end = rng.choice([4, 6, 8])
        w = {v: gen_signal(rng, rng.choice([2, 3, 4, 5]), t0=0, end=end) for v in vs}
        evs = [ev_parse(k + 1) for k in range(K)] + [ev_ct("update" if online else "evaluate", w, k + 1) for k in range(K)]
        rels = [{"rel": "same_fn", "x": 1, "y": k + 1} for k in range(1, K)]
        kw = {}
        if rng.random() < 0.4:
            # first a twin of object 1 under another default unit (bounds written with a unit mean the same duration, but another
            # number of default units: seeds r10 C04-1, C05-1 - class-level memos of converted bounds keyed without the default unit)
            kw["intruder"] = {"unit": {"s": "ms", "ms": "s"}[default], "offline": not online}
        dcases.append(case(objs, evs, rels, kind="dense", bad=False, timeout=8, **kw))
    dtr = runner.run_cases(dcases)
    dvs, dgen, ddist = core.validate("C08_dense", dtr, module="TraceCt")
    rep.add_traces(dtr, dvs, dgen, ddist, nontrivial_key=lambda c: str([o["text"] for o in c["objs"]]) + str(c["events"][-1]["w"]))
    rep.extra["dense_cases"] = len(dcases)
    traces = runner.run_cases(cases)
    vs_, gen, dist = core.validate("C08", traces)
    rep.add_traces(traces, vs_, gen, dist, nontrivial_key=lambda c: str([o["text"] for o in c["objs"]]) + str(c["events"][-1].get("w", c["events"][-1].get("s"))))
    rep.extra["cases_by_kind"] = {k: sum(1 for c in cases if c["kind"] == k) for k in ("off", "on", "past")}
    rep.extra["non_multiple_cases"] = sum(1 for c in cases if c["bad"])
    st = {}
    for c in cases:
        for o in c["objs"]:
            for s_ in o["styles"]:
                st[s_] = st.get(s_, 0) + 1
    rep.extra["interval_spelling_styles"] = st
    return rep.finish("traces: the same durations spelled 2-3 ways per case (unit on both / end only / begin only / neither end, units s ms "
                      "us ns, literals 2 2.0 2. 2e0 .5, default unit via spec.unit, sampling period in another unit) on offline, online "
                      "and pastified discrete-time monitors; the number of samples each bound denotes is computed by the specification "
                      "(Units!SamplesOf via Rtamt!NormAst) from the written literal, every object is validated against the model and the "
                      "spellings against each other; 12% of the cases contain a bound of k+1/2 periods and must be rejected with RTAMTException")

if __name__ == "__main__":
    core.main(main)
