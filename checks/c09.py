"""C09: modular specifications (sub-specifications, declared constants) = their inlined form."""
import random, sys, os
sys.path.insert(0, os.path.join(os.path.dirname(os.path.abspath(__file__)), "..", "harness"))
import core, semmc, mc, runner
from astlib import *
from cases import *
from modular import decompose
import c03 as _c03


def gen_cases(rng, n):
    cases = []
    for i in range(n):
        S = rng.choice([1, 1, 2])
        kind = rng.choice(["off", "on", "on", "past"])
        ops = ["not", "and", "or", "implies", "prev", "sprev", "once", "hist", "since", "onceT", "histT", "sinceT", "rise", "fall", "xor"]
        if kind == "off":
            ops += ["ev", "alw", "until", "evT", "alwT", "untilT", "next"]
        if kind == "past":
            ops += ["evT", "alwT", "untilT", "next"]
        g = Gen(rng, vars_=rng.choice([("x",), ("x", "y")]), S=S, ops=ops, ivs=[(0, 0), (0, 1), (1, 2), (0, 3), (2, 2)], bool_atoms=False)
        for _ in range(40):
            phi = g.formula(rng.choice([2, 2, 3, 3, 4]))
            if rng.random() < 0.3:      # the same stateful sub-formula referenced twice
                q = g.formula(rng.choice([1, 2]))
                phi = bi(rng.choice(["and", "or", "implies", "since"]), bi(rng.choice(["and", "or"]), q, g.formula(1)), rng.choice([q, un("not", q), un("prev", q)]))
            if kind == "past" and (not (ops_of(phi) & FUT) or _c03.past_over_future(phi)):
                continue
            if kind == "on" and (ops_of(phi) & FUT):
                continue
            break
        else:
            continue
        vs = vars_of(phi) or ["x"]
        bconsts = []
        if rng.random() < 0.35:
            # declared constants as interval bounds (with and without a unit)
            import copy
            phi = copy.deepcopy(phi)
            tn = list({id(q): q for q in subformulas(phi) if q["op"] in TIMED}.values())   # (shared nodes once)
            rng.shuffle(tn)
            for j, q in enumerate(tn[:2]):
                which = rng.choice(["a", "b"])
                other = "b" if which == "a" else "a"
                nm = "kb%d" % (j + 1)
                q[which + "t"] = nm
                variant = rng.random()
                if variant < 0.3:
                    # the constant has no unit of its own and inherits the unit written on the other bound
                    q[other + "t"] = str(q[other] * 1000); q[other + "u"] = "ms"
                    bconsts.append([nm, str(q[which] * 1000)])
                    continue
                if variant < 0.6:
                    q[which + "u"] = "s"
                    if which == "a" and rng.random() < 0.5:
                        q["bu"] = "s"
                bconsts.append([nm, str(q[which])])
        subs, main, cdecl, named = decompose(rng, phi, S)
        cdecl = cdecl + bconsts
        if not subs and not cdecl:
            continue
        def strip_spelling(p_):
            q = {k_: v_ for k_, v_ in p_.items() if k_ not in ("at", "bt", "au", "bu")}
            for k_ in ("l", "r"):
                if k_ in q:
                    q[k_] = strip_spelling(q[k_])
            return q
        phi_m = strip_spelling(phi)
        def as_written(p_):
            q = {k_: v_ for k_, v_ in p_.items() if k_ not in ("at", "bt", "a", "b")}
            for k_ in ("l", "r"):
                if k_ in q:
                    q[k_] = as_written(q[k_])
            if p_["op"] in TIMED:
                ms = "ms" in (p_.get("au", ""), p_.get("bu", ""))        # written in milliseconds (variant 1)
                k_ = 1000 if ms else 1
                q["aw"] = [p_["a"] * k_, 1]; q["bw"] = [p_["b"] * k_, 1]; q["au"] = p_.get("au", ""); q["bu"] = p_.get("bu", "")
            return q
        r_shape = rng.random()
        if r_shape < 0.15:
            # an assertion the output never refers to, placed before it (with a longer horizon in the pastified kind)
            extra = un("evT", pred("ge", var(vs[0]), const(2 * S)), 0, rng.choice([3, 4, 5])) if kind in ("past", "off") else \
                    un("onceT", pred("ge", var(vs[0]), const(2 * S)), 0, rng.choice([3, 4, 5]))
            subs = ["unused9 = " + to_text(extra, S)] + subs
            named = named + [("unused9", extra)]
        elif r_shape < 0.3 and not bconsts:
            # a name assigned twice: the second definition uses the first, later references see the second
            from modular import text_with_names
            q1 = g.formula(rng.choice([0, 1])); q2 = g.formula(rng.choice([0, 1]))
            if True:
                both = bi(rng.choice(["and", "or"]), q1, q2)
                opx = rng.choice(["and", "or", "implies"])
                phi = bi(opx, both, phi)
                phi_m = strip_spelling(phi)
                vs = sorted(set(vars_of(phi)))
                subs = ["t9 = " + to_text(q1, S), "t9 = ( t9 ) %s ( %s )" % (KW[both["op"]], to_text(q2, S))] + subs
                main = "( t9 ) %s ( %s )" % (KW[opx], main)
        elif r_shape < 0.42 and not bconsts:
            # a sub-specification that carries the name of the input signal it reads: later references mean the sub-specification
            v0 = rng.choice(["x", "y"])
            g1 = Gen(rng, vars_=(v0,), S=S, ops=g.ops, ivs=g.ivs, bool_atoms=False)
            q1 = g1.formula(rng.choice([0, 1, 1, 2]))
            others = [v_ for v_ in ("x", "y") if v_ != v0]
            g2 = Gen(rng, vars_=tuple(others), S=S, ops=g.ops, ivs=g.ivs, bool_atoms=False)
            q2 = g2.formula(rng.choice([0, 1]))
            if vars_of(q1) == [v0] and v0 not in vars_of(q2) and not (kind == "past" and _c03.past_over_future(bi("and", q1, q2))) \
                    and not (kind == "past" and not (ops_of(q1) | ops_of(q2)) & FUT):
                opx = rng.choice(["and", "or", "implies"])
                phi = bi(opx, q1, q2)
                phi_m = strip_spelling(phi)
                vs = sorted(set(vars_of(phi)))
                subs = ["%s = %s" % (v0, to_text(q1, S))]
                main = "( %s ) %s ( %s )" % (v0, KW[opx], to_text(q2, S))
                named = []
                cdecl = []
                if rng.random() < 0.4:
                    # ... and the name is assigned a second time (the second definition uses the first): the signal stays an input
                    q3 = g2.formula(rng.choice([0, 1]))
                    if v0 not in vars_of(q3) and not (kind == "past" and _c03.past_over_future(bi("and", bi("and", q1, q3), q2))):
                        op3 = rng.choice(["and", "or"])
                        phi = bi(opx, bi(op3, q1, q3), q2)
                        phi_m = strip_spelling(phi)
                        vs = sorted(set(vars_of(phi)))
                        subs = subs + ["%s = ( %s ) %s ( %s )" % (v0, v0, KW[op3], to_text(q3, S))]
        style = rng.choice(["add_sub_spec", "one_text"])
        declare_names = rng.random() < 0.5
        o1 = dt_obj(phi_m, S, vs, consts=cdecl)
        if cdecl and rng.random() < 0.5:
            o1["late_consts"] = [[c_[0], "977"] for c_ in cdecl]
        if bconsts:
            o1["written"] = as_written(phi)
            o1["units"] = {"def": "s", "pnum": 1, "pden": 1, "punit": "s"}
        if style == "add_sub_spec":
            o1["subs"] = [s_ + ";" for s_ in subs]
            o1["text"] = "out = " + main
        else:
            o1["text"] = " ; ".join(subs + ["out = " + main])
        if declare_names:
            o1["declare"] = vs + [nm for nm, _ in named]
        o2 = dt_obj(phi_m, S, vs)
        h = horizon(phi)
        N = rng.choice([1, 2, 3, 5, 8]) + (h if kind == "past" else 0)
        w = gen_trace(rng, vs, N, S)
        if kind == "off":
            fac = rng.choice(["StlDiscreteTimeSpecification", "StlDiscreteTimeOfflineSpecification"])
            evs = [ev_parse(1), ev_parse(2), ev_evaluate(range(N), w, 1), ev_evaluate(range(N), w, 2)]
            rels = [{"rel": "same_off", "x": 1, "y": 2}]
        else:
            fac = rng.choice(["StlDiscreteTimeSpecification", "StlDiscreteTimeOnlineSpecification"])
            evs = [ev_parse(1), ev_parse(2)] + ([ev_pastify(1), ev_pastify(2)] if kind == "past" else [])
            k0 = rng.randrange(N) if rng.random() < 0.25 else None
            for t in range(N):
                if t == k0:
                    evs += [ev_reset(1), ev_reset(2)]
                evs += [ev_update(t, sample_at(w, t), 1), ev_update(t, sample_at(w, t), 2)]
            rels = [{"rel": "same_on_from", "x": 1, "y": 2, "k": (h + 1 if kind == "past" else 1)}]
            if k0 is not None:
                rels = []
        o1["factory"] = o2["factory"] = fac
        if kind == "off" and not bconsts and not cdecl and rng.random() < 0.15:
            # the modular text (and its sub-specifications) is given to an object that was parsed - and perhaps evaluated - with
            # another text before, and the object is parsed again (the machine's action Reparse): it then monitors the new formula like
            # the inlined object does (seed r10 C09-2: a re-parsed assertion replaced its earlier entry, new sub-specifications landed
            # behind it and evaluate() returned the last of them)
            g0 = Gen(rng, vars_=vs, S=S, ops=["not", "and", "or", "implies", "once", "hist", "prev", "onceT", "evT", "alw"], ivs=[(0, 1), (1, 2)], bool_atoms=False)
            phi0 = g0.formula(rng.choice([0, 1, 2]))
            if not (set(vars_of(phi0)) <= set(vs)) or not vars_of(phi0):
                phi0 = pred("ge", var(vs[0]), const(0))
            o1r = dt_obj(phi0, S, vs, factory=fac)
            if declare_names:
                o1r["declare"] = o1["declare"]
            re_ev = {"o": 1, "a": "reparse", "phi": phi_m, "text": o1["text"], "subs": o1.get("subs", [])}
            evs = [ev_parse(1), ev_parse(2)] + ([ev_evaluate(range(N), gen_trace(rng, vs, N, S), 1)] if rng.random() < 0.5 else []) + \
                  [re_ev, ev_evaluate(range(N), w, 1), ev_evaluate(range(N), w, 2)]
            cases.append(case([o1r, o2], evs, rels, skip=["evaluate.viol", "parse.ast"], kind=kind, style=style))
            continue
        cases.append(case([o1, o2], evs, rels, skip=["evaluate.viol"], kind=kind, style=style))
    return cases


def main():
    import astlib
    astlib.AUTO_FUNCS = 0.2       # sqrt exp ln log pow at exact points in a fifth of the generated formulas
    rep = core.Report("C09")
    quick = core.tier() == "quick"
    # model: a modular specification *means* its inlined formula; the operational content is that an operator
    # referenced several times is one memory stepped once per update - the duplicate universe of C02
    import c02 as _c02
    F, dup = _c02.universe()
    r = mc.rtamt_mc("C09_shared", dup, [mc.std_cfg(["x", "y"])], maxlen=3 if quick else 4, invariants=["InvC02", "InvC10"])
    rep.add_mc("shared (multiply referenced) stateful sub-formulas: one memory per name, stepped once per update", r)
    if r["violated"]:
        rep.mc_violation("C09_shared", r)
    # the offline half of the machine with Reparse (another text on a parsed object, parsed again): after every evaluation the result is
    # the semantics of the formula installed last, whatever was parsed and evaluated before (InvC01cfg, InvC13)
    ax_, ay_ = pred("ge", var("x"), const(1)), pred("le", var("y"), const(1))
    FRe = [ax_, bi("and", ax_, ay_), un("once", ax_), un("evT", ay_, 0, 1), bi("since", ax_, ay_), un("prev", bi("or", ax_, ay_))]
    r = mc.rtamt_mc("C09_reparse", FRe, [mc.std_cfg(["x", "y"])], vals=(-2, 3), maxlen=2 if quick else 3, mode="offline_re",
                    invariants=["InvC01", "InvC01cfg", "InvC13"], properties=["ActC16"])
    rep.add_mc("offline machine with Reparse between %d formulas: every evaluation is the semantics of the formula installed last" % len(FRe), r)
    if r["violated"]:
        rep.mc_violation("C09_reparse", r)
    # (B): TLC-simulated behaviours of that machine (Parse, Extend, Reparse) replayed on the real library
    import behaviours
    bres, behs = behaviours.simulate("C09_sim", FRe + dup[:6], ["x", "y"], num=(40 if quick else 400), depth=(6 if quick else 8), seed=core.seed(), mode="offline_re")
    rep.add_mc("TLC simulation of Rtamt.tla, offline half with Reparse: behaviours generated for replay", bres, exhaustive=False)
    if bres["violated"]:
        rep.mc_violation("C09_sim", bres)
    bcases = behaviours.to_cases(behs, ["x", "y"])
    for c_ in bcases:
        c_["skip"] = ["evaluate.viol"]
    btr = runner.run_cases(bcases)
    bvs, bgen, bdist = core.validate("C09_sim_replay", btr)
    rep.add_traces(btr, bvs, bgen, bdist, nontrivial_key=lambda c: c["objs"][0]["text"] + str([(e["a"], e.get("text"), e.get("w")) for e in c["events"]]))
    rep.extra["tlc_behaviours_replayed"] = len(bcases)
    rep.extra["tlc_behaviours_with_reparse"] = sum(1 for c in bcases if any(e["a"] == "reparse" for e in c["events"]))
    rng = random.Random(core.seed() * 7919 + 9)
    cases = gen_cases(rng, 900 if quick else 15000)
    traces = runner.run_cases(cases)
    vs_, gen, dist = core.validate("C09", traces)
    rep.add_traces(traces, vs_, gen, dist, nontrivial_key=lambda c: c["objs"][0]["text"] + str(c["objs"][0].get("subs")) + str(c["events"][-1].get("w", c["events"][-1].get("s"))))
    rep.extra["cases_by_kind"] = {k: sum(1 for c in cases if c["kind"] == k) for k in ("off", "on", "past")}
    rep.extra["cases_by_style"] = {k: sum(1 for c in cases if c["style"] == k) for k in ("add_sub_spec", "one_text")}
    return rep.finish("TLC: the shared-operator universe of C02 (a name referenced twice has one memory); traces: random decompositions of "
                      "random formulas into 1-3 named sub-specifications (nested, shared, referenced twice) and 0-2 declared constants, "
                      "through add_sub_spec and through several assertions in one text, names declared or implicit; modular and inlined "
                      "objects run side by side offline, online (with reset) and online after pastify(); the read-back AST of the modular "
                      "object must equal the inlined formula, every return is compared with the model and the two objects with each other")

if __name__ == "__main__":
    core.main(main)
