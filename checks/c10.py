"""C10: reset() returns an online monitor to its initial state (discrete time; dense time in c10 dense part)."""
import random, sys, os
sys.path.insert(0, os.path.join(os.path.dirname(os.path.abspath(__file__)), "..", "harness"))
import core, mc, runner
from astlib import *
from cases import *
import c02 as _c02mod  # noqa  (universe of past formulas)


def main():
    import astlib
    astlib.AUTO_FUNCS = 0.2       # sqrt exp ln log pow at exact points in a fifth of the generated formulas
    rep = core.Report("C10")
    quick = core.tier() == "quick"
    F, dup = _c02mod.universe()
    fut = [un("evT", pred("ge", var("x"), const(0)), 0, 1), bi("and", un("next", pred("ge", var("x"), const(0))), pred("le", var("y"), const(1))),
           bi("untilT", pred("ge", var("x"), const(0)), pred("le", var("y"), const(1)), 1, 2)]
    cfgs = [mc.std_cfg(["x", "y"], period=2, tol=0)]
    U = (F[::2] if quick else F) + dup[:6] + fut
    r = mc.rtamt_mc("C10_reset", U, cfgs, gaps=(2, 3), maxlen=3, invariants=["InvC10", "InvC13", "InvC02", "InvC03"], properties=["ActC10"])
    rep.add_mc("reset at every point of every update history (past, duplicated and pastified formulas), jittered stamps", r)
    if r["violated"]:
        rep.mc_violation("C10_reset", r)
    rr = mc.rtamt_mc("C10_devon", F[:6], cfgs, gaps=(2, 3), maxlen=3, dev=["resetKeepsViol"], invariants=["InvC13"],
                     properties=["ActC10"], expect_violation=True)
    # update() calls that leave variables out (they keep their last value; after a reset: the default of the declaration)
    r3 = mc.rtamt_mc("C10_partial", F[:10] + dup[:3], [mc.std_cfg(["x", "y"])], vals=(-2, 3), maxlen=3, mode="partial",
                     invariants=["InvC10", "InvC02"], properties=["ActC10"])
    rep.add_mc("reset at every point of every history of partial updates (a variable left out keeps its value, 0 after a reset)", r3)
    if r3["violated"]:
        rep.mc_violation("C10_partial", r3)
    r4 = mc.rtamt_mc("C10_devon3", F[:6], [mc.std_cfg(["x", "y"])], vals=(-2, 3), maxlen=2, mode="partial", dev=["resetKeepsInputs"],
                     invariants=["InvC10"], properties=["ActC10"], expect_violation=True)
    r2 = mc.rtamt_mc("C10_devon2", F[:6], cfgs, gaps=(2, 3), maxlen=3, dev=["staleKeepsViol"], invariants=["InvC13"],
                     properties=["ActC10"], expect_violation=True)
    rep.extra["deviation_on_counterexample"] = {"resetKeepsInputs": r4["violated"], "resetKeepsViol": rr["violated"], "staleKeepsViol (reset() after a second pastify())": r2["violated"]}

    # (B) specification -> code: behaviours of the life-cycle machine simulated by TLC, replayed on the real library
    import behaviours
    bres, behs = behaviours.simulate("C10_sim", U, ["x", "y"], num=(110 if quick else 900), depth=(7 if quick else 9), seed=core.seed())
    rep.add_mc("TLC simulation of Rtamt.tla (Parse/Pastify/Update/Reset): behaviours generated for replay", bres, exhaustive=False)
    if bres["violated"]:
        rep.mc_violation("C10_sim", bres)
    # ... and with update() calls that leave variables out (Mode = "partial")
    bres2, behs2 = behaviours.simulate("C10_sim_partial", U, ["x", "y"], num=(60 if quick else 500), depth=(7 if quick else 9), seed=core.seed() + 7, mode="partial")
    rep.add_mc("TLC simulation of Rtamt.tla with partial updates: behaviours generated for replay", bres2, exhaustive=False)
    if bres2["violated"]:
        rep.mc_violation("C10_sim_partial", bres2)
    behs = behs + behs2
    bcases = behaviours.to_cases(behs, ["x", "y"])
    btr = runner.run_cases(bcases)
    bvs, bgen, bdist = core.validate("C10_sim_replay", btr)
    rep.add_traces(btr, bvs, bgen, bdist, nontrivial_key=lambda c: c["objs"][0]["text"] + str([(e["a"], e.get("s")) for e in c["events"]]))
    rep.extra["tlc_behaviours_replayed"] = len(bcases)
    rng = random.Random(core.seed() * 7919 + 10)
    n = 600 if quick else 12000
    cases = []
    for i in range(n):
        S = rng.choice([1, 1, 2])
        fut_case = rng.random() < 0.3
        ops = _c02mod.PAST_OPS + (["evT", "alwT", "untilT", "next"] if fut_case else [])
        g = Gen(rng, vars_=rng.choice([("x",), ("x", "y")]), S=S, ops=ops, ivs=_c02mod.IVS + [(0, 5)])
        if not fut_case and rng.random() < 0.3:
            g.tterm = 0.25            # stateful operators inside the operands of a comparison
        import c03 as _c03
        for _ in range(30):
            phi = g.formula(rng.choice([1, 2, 2, 3]))
            if not fut_case and not (ops_of(phi) & FUT):
                break
            if fut_case and not (ops_of(phi) & UNB_FUT) and not _c03.past_over_future(phi):
                break
        if ops_of(phi) & FUT and not fut_case:
            continue
        pastify = bool(ops_of(phi) & FUT) or rng.random() < 0.15
        vs = vars_of(phi) or ["x"]
        pre = rng.choice([0, 0, 1, 2, 3, 5, 8])
        post = rng.choice([1, 2, 3, 5, 8]) + horizon(phi)
        w1 = gen_trace(rng, vs, pre, S)
        w2 = gen_trace(rng, vs, post, S)
        fac = rng.choice(["StlDiscreteTimeSpecification", "StlDiscreteTimeOnlineSpecification"])
        o1 = dt_obj(phi, S, vs, factory=fac, period=10, tol=1, tS=10)
        o2 = dt_obj(phi, S, vs, factory=fac, period=10, tol=1, tS=10)
        early_reset = pastify and rng.random() < 0.3            # reset() between parse() and pastify(): harmless, too
        if (ops_of(phi) & TIMED) and rng.random() < 0.3:
            # bounds written with units (pastify() re-writes them in the default unit: the node names change)
            import c08 as _c08
            default = "s"                       # (the time-stamps of this generator are seconds)
            written, _st = _c08.write_ast(rng, phi, 10 ** _c08.E["s"], default)
            for o_ in (o1, o2):
                o_.update(dt_obj(phi, S, vs, factory=fac, period=10, tol=1, tS=10, text="out = " + to_text(written, S), written=written,
                                 units={"def": default, "pnum": 1, "pden": 1, "punit": "s"}, unit=default, set_period=[1, "s", 0.1]))
        evs = [ev_parse(1)] + ([ev_reset(1)] if early_reset else []) + ([ev_pastify(1)] if pastify else [])
        # a third of the lives leave variables out of some update() calls: they keep their last value - after a reset() the
        # default value of the declaration, like on a new object
        part = rng.random() < 0.35
        def cut(s_):
            return {v_: x_ for v_, x_ in s_.items() if not (part and rng.random() < 0.35)}
        t = 0
        for k in range(pre):
            evs.append(ev_update(t, cut(sample_at(w1, k)), 1))
            t += rng.choice([10, 10, 5, 20, 13])
        late = not (ops_of(phi) & FUT) or pastify          # the installed formula has no future operator: pastify() again is harmless
        if late and rng.random() < 0.2:
            evs.append(ev_pastify(1))                      # ... and the reset() that follows must work like any other (seed C10-g)
        evs.append(ev_reset(1))
        if rng.random() < 0.15:
            evs.append(ev_reset(1))
        # further segments, each ended by a reset: every reset of an object's life must work, not only the first
        for seg in range(rng.choice([0, 0, 1, 1, 2])):
            ws = gen_trace(rng, vs, rng.choice([1, 2, 3, 5]), S)
            t = rng.choice([0, 30])
            for k in range(len(ws[vs[0]])):
                evs.append(ev_update(t, cut(sample_at(ws, k)), 1))
                t += rng.choice([10, 10, 5, 20, 13])
            if late and rng.random() < 0.2:
                evs.append(ev_pastify(1))
            evs.append(ev_reset(1))
        evs += [ev_parse(2)] + ([ev_pastify(2)] if pastify else [])
        t1, t2 = rng.choice([0, 50, 1000]), 0
        for k in range(post):
            sk = cut(sample_at(w2, k))
            evs.append(ev_update(t1, sk, 1))
            evs.append(ev_update(t2, dict(sk), 2))
            gap = rng.choice([10, 10, 10, 20])
            t1 += gap; t2 += gap
        cases.append(case([o1, o2], evs, rels=[{"rel": "same_on", "x": 1, "y": 2}]))
    # ---- an update() that raises half-way (division by a sample that is 0: operators of earlier branches are already stepped, the
    # inputs stored) and then reset(): the monitor must be as new (seed C10-i; dense time: the stale samples of the failed call)
    for i in range(n // 10):
        a_ = pred(rng.choice(["ge", "le"]), var("x"), const(rng.choice([0, 2])))
        left = rng.choice([lambda: un("once", a_), lambda: un("hist", a_), lambda: un("onceT", a_, 0, 2), lambda: bi("since", a_, pred("ge", var("y"), un("neg", const(1)))),
                           lambda: un("prev", a_)])()
        quo = pred(rng.choice(["ge", "le"]), bi("div", var("x"), var("y")), const(rng.choice([0, 1, 2])))
        phi = bi(rng.choice(["and", "or"]), left, quo)
        vs = ["x", "y"]
        good = lambda: {"x": rng.choice([-4, -2, 0, 2, 4]), "y": rng.choice([-2, -1, 1, 2])}
        fac = rng.choice(["StlDiscreteTimeSpecification", "StlDiscreteTimeOnlineSpecification"])
        o1 = dt_obj(phi, 1, vs, factory=fac, period=10, tol=1, tS=10); o2 = dt_obj(phi, 1, vs, factory=fac, period=10, tol=1, tS=10)
        evs = [ev_parse(1)]
        t = 0
        for k in range(rng.choice([0, 0, 1, 2, 3])):
            evs.append(ev_update(t, good(), 1)); t += 10
        bad_ = good(); bad_["y"] = 0; bad_["x"] = rng.choice([4, -4])
        evs += [ev_update(t, bad_, 1), ev_reset(1), ev_parse(2)]
        part = rng.random() < 0.4
        t = 0
        for k in range(rng.choice([2, 3, 5])):
            sk = good()
            if part and k == 0:
                sk = {"y": sk["y"]}            # x left out right after the reset: it must be the default 0, not the value of the failed call
            evs += [ev_update(t, sk, 1), ev_update(t, dict(sk), 2)]; t += 10
        cases.append(case([o1, o2], evs, rels=[{"rel": "same_on", "x": 1, "y": 2}]))
    # ---- dense-time online: a reset monitor = a fresh one (new signal from time 0 after the reset)
    import c05 as _c05
    dcases = []
    for i in range(n // 3):
        S = rng.choice([1, 2])
        ops = _c05.UNTIMED + (["onceT", "histT", "sinceT"] if rng.random() < 0.5 else [])
        g = Gen(rng, vars_=rng.choice([("x",), ("x", "y")]), S=S, ops=ops, ivs=[(1, 1), (2, 2), (0, 1), (1, 3), (0, 2)], bool_atoms=True)
        for _ in range(30):
            phi = g.formula(rng.choice([1, 2, 2]))
            if vars_of(phi):
                break
        else:
            continue
        vs = vars_of(phi)
        def sig():
            end = rng.choice([2, 4, 6])
            return {v: gen_signal(rng, rng.choice([2, 3, 4]), t0=0, S=S, end=end) for v in vs}
        evs = [ev_parse(1), ev_parse(2)]
        if rng.random() < 0.2:
            evs.append(ev_reset(1))
        for seg in range(rng.choice([1, 1, 2])):
            w1 = sig()
            evs += _c05.schedule_events(w1, {v: rng.choice(_c05.splits(len(w1[v]))) for v in vs}, 1)
            evs.append(ev_reset(1))
        w2 = sig()
        sc = {v: rng.choice(_c05.splits(len(w2[v]))) for v in vs}
        evs += _c05.schedule_events(w2, sc, 1) + _c05.schedule_events(w2, sc, 2)
        fac = rng.choice(["StlDenseTimeSpecification", "StlDenseTimeOnlineSpecification"])
        dcases.append(case([ct_obj(phi, S, vs, factory=fac), ct_obj(phi, S, vs, factory=fac)], evs, [{"rel": "same_fn", "x": 1, "y": 2}]))
    for i in range(n // 12):
        a_ = pred(rng.choice(["ge", "le"]), var("x"), const(rng.choice([0, 2])))
        left = rng.choice([lambda: un("once", a_), lambda: un("hist", a_), lambda: un("onceT", a_, 0, 2), lambda: a_])()
        quo = pred(rng.choice(["ge", "le"]), bi("div", var("x"), var("y")), const(rng.choice([0, 1, 2])))
        phi = bi(rng.choice(["and", "or"]), left, quo)
        vs = ["x", "y"]
        def sigs(poison):
            end = rng.choice([2, 3, 4])
            ts = sorted(set([0, end] + rng.sample(range(1, end), rng.choice([0, 1]))))
            w_ = {"x": [[t_, rng.choice([-4, -2, 0, 2, 4])] for t_ in ts], "y": [[t_, rng.choice([-2, -1, 1, 2])] for t_ in ts]}
            if poison:
                w_["y"][rng.randrange(len(ts))][1] = 0
            return w_
        fac = rng.choice(["StlDenseTimeSpecification", "StlDenseTimeOnlineSpecification"])
        evs = [ev_parse(1), ev_parse(2), ev_ct("update", sigs(True), 1), ev_reset(1)]
        w2 = sigs(False)
        if rng.random() < 0.5:
            # after the reset the first call brings y only: x must not come from the failed call's leftovers
            evs += [ev_ct("update", {"y": w2["y"]}, 1), ev_ct("update", {"x": w2["x"]}, 1), ev_ct("update", {"y": w2["y"]}, 2), ev_ct("update", {"x": w2["x"]}, 2)]
        else:
            evs += [ev_ct("update", w2, 1), ev_ct("update", w2, 2)]
        dcases.append(case([ct_obj(phi, 1, vs, factory=fac), ct_obj(phi, 1, vs, factory=fac)], evs, [{"rel": "same_fn", "x": 1, "y": 2}]))
    dtr = runner.run_cases(dcases)
    dvs, dgen, ddist = core.validate("C10_dense", dtr, module="TraceCt")
    rep.add_traces(dtr, dvs, dgen, ddist, nontrivial_key=lambda c: c["objs"][0]["text"] + str([e.get("w") for e in c["events"]]))
    rep.extra["dense_cases"] = len(dcases)
    traces = runner.run_cases(cases)
    vs_, gen, dist = core.validate("C10", traces)
    rep.add_traces(traces, vs_, gen, dist, nontrivial_key=lambda c: c["objs"][0]["text"] + str([e.get("s") for e in c["events"]]))
    return rep.finish("TLC: Reset enabled in every state of the online machine (memories = those of a fresh monitor on the samples since "
                      "the last reset; counter 0); traces: random pre-reset history (0..8 updates, jittered stamps), reset (sometimes "
                      "twice, sometimes before any update), post-reset inputs fed to the reset object and to a brand-new object, "
                      "compared step by step with the model and with each other")

if __name__ == "__main__":
    core.main(main)
