"""C11: evaluation is pure - caller data untouched, repeatable, isolated between objects, independent of the hash seed."""
import copy, json, random, subprocess, sys, os
sys.path.insert(0, os.path.join(os.path.dirname(os.path.abspath(__file__)), "..", "harness"))
import core, mc, runner, tlc
from astlib import *
from cases import *


def gen_cases(rng, n):
    cases = []
    ALL = UN_BOOL + UN_TIMED + BIN_BOOL + ["sinceT", "untilT"]
    PASTO = [o for o in ALL if o not in FUT]
    for i in range(n):
        S = rng.choice([1, 1, 2])
        vs = list(rng.choice([("x",), ("x", "y")]))
        K = rng.choice([1, 2, 2, 3])
        objs, kinds = [], []
        for k in range(K):
            online = rng.random() < 0.4
            g = Gen(rng, vars_=vs, S=S, ops=(PASTO if online else ALL), ivs=[(0, 0), (0, 1), (1, 2), (0, 3), (0, 7), (2, 9)])
            r_ = rng.random()
            if not online and r_ < 0.35:
                # padding shapes: bounded always/eventually directly on a variable, bound >= trace length
                phi = un(rng.choice(["alwT", "evT"]), var(rng.choice(vs)), rng.choice([0, 1]), rng.choice([3, 7, 9]))
                if rng.random() < 0.5:
                    phi = bi(rng.choice(["and", "or"]), phi, rng.choice([un("alw", var(rng.choice(vs))), un("next", var(vs[0])), g.formula(1)]))
            else:
                phi = g.formula(rng.choice([1, 2, 3]))
            if k > 0 and rng.random() < 0.4:
                # another live object with the same (or a wrapped copy of the same) formula: same printed operator names
                phi0 = objs[0]["phi"]
                if not (online and (ops_of(phi0) & FUT)):
                    phi = phi0 if rng.random() < 0.5 else un("not", phi0)
            allv = vs
            fac = ("StlDiscreteTimeOnlineSpecification" if online else "StlDiscreteTimeOfflineSpecification") if rng.random() < 0.5 else "StlDiscreteTimeSpecification"
            objs.append(dt_obj(phi, S, allv, factory=fac))
            kinds.append(online)
        if rng.random() < 0.15:
            # the same specification *text* on objects with different sampling periods: the printed operator names coincide, the
            # numbers of samples the bounds denote do not (seed C11-f: a process-wide memo keyed by the operator name)
            import copy as _copy
            online = rng.random() < 0.3
            g = Gen(rng, vars_=vs, S=1, ops=["not", "and", "or", "onceT", "histT", "sinceT"] + ([] if online else ["evT", "alwT", "untilT"]),
                    ivs=[(0, 2), (2, 4), (2, 2), (0, 4)], bool_atoms=False)
            for _ in range(30):
                wr = g.formula(rng.choice([1, 1, 2]))
                if ops_of(wr) & TIMED:
                    break
            else:
                wr = un("onceT", pred("ge", var(vs[0]), const(0)), 0, 2)
            for q in subformulas(wr):
                if q["op"] in TIMED:
                    q.update({"aw": [q["a"], 1], "bw": [q["b"], 1], "au": "", "bu": "", "at": str(q["a"]), "bt": str(q["b"]),
                              "fa": str(q["a"]), "fb": str(q["b"])})
            S = 1
            objs, kinds = [], []
            pers = [("s", 1, "s"), ("s", 2, "s"), ("s", 500, "ms")]
            if not online and not (ops_of(wr) & {"sinceT", "untilT"}) and rng.random() < 0.6:     # (quadratic operators: windows of 4000 samples take seconds)
                # ... or (offline objects) with the same sampling period under different default units (seeds r9 C11-3, C08-1: the memo's key left
                # the default unit out): [0:2] is 2 samples under ms and 2000 under s
                pers = [("ms", 1, "ms"), ("s", 1, "ms"), ("ms", 2, "ms")]
            rng.shuffle(pers)
            for k in range(K if K > 1 else 2):
                du, pn, pu = pers[k]
                fac = ("StlDiscreteTimeOnlineSpecification" if online else "StlDiscreteTimeOfflineSpecification") if rng.random() < 0.5 else "StlDiscreteTimeSpecification"
                objs.append(dt_obj(wr, 1, vs, factory=fac, text="out = " + to_text(wr, 1), written=_copy.deepcopy(wr),
                                   units={"def": du, "pnum": pn, "pden": 1, "punit": pu}, unit=du, set_period=[pn, pu, 0.1], styles=[]))
                kinds.append(online)
            K = len(objs)
        N = rng.choice([1, 2, 3, 4, 6])
        w = gen_trace(rng, vs, N, S)
        own = rng.random() < 0.5          # online objects get their own data stream (cross-talk between objects shows)
        # one caller-owned data set shared by every offline object and evaluated repeatedly
        evs = [ev_parse(k + 1) for k in range(K)]
        steps = []
        for k in range(K):
            if kinds[k]:
                if own:
                    wk = gen_trace(rng, vs, N, S)
                    steps.append([ev_update(t, sample_at(wk, t), k + 1) for t in range(N)])
                else:
                    steps.append([ev_update(t, sample_at(w, t), k + 1, share="s%d" % t) for t in range(N)])
            else:
                reps = rng.choice([1, 2, 3])
                steps.append([ev_evaluate(range(N), w, k + 1, share="data") for _ in range(reps)])
        # random interleaving of the objects' call sequences
        pos = [0] * K
        while any(pos[k] < len(steps[k]) for k in range(K)):
            k = rng.choice([k for k in range(K) if pos[k] < len(steps[k])])
            evs.append(steps[k][pos[k]]); pos[k] += 1
        cases.append(case(objs, evs, skip=["evaluate.viol"] + (["update.viol"] if "written" in objs[0] else [])))
    return cases


def poisoned_cases(rng, n, dense):
    """an evaluate() that raises (a division by a sample that is 0) between proper evaluations of the same offline object, written
    with a named sub-formula: the failed call must leave nothing behind (seed C19-g: results memoised per evaluate() and not
    cleared on the error path)"""
    cases = []
    for i in range(n):
        ax = pred(rng.choice(["ge", "le"]), var("x"), const(rng.choice([0, 2])))
        sub = rng.choice([lambda: ax, lambda: un(rng.choice(["once", "hist", "ev", "alw"]), ax), lambda: un(rng.choice(["onceT", "evT"]), ax, 0, rng.choice([1, 2])),
                          lambda: bi("and", ax, pred("ge", var("y"), un("neg", const(1))))])()
        quo = pred(rng.choice(["ge", "le"]), bi("div", var("x"), var("y")), const(rng.choice([0, 1, 2])))
        phi = bi(rng.choice(["and", "or", "implies"]), sub, quo)
        if rng.random() < 0.3:
            phi = un(rng.choice(["alw", "once", "not"]), phi)
        from modular import text_with_names
        names = {id(sub): "helper"}
        text = "helper = %s ; out = %s" % (to_text(sub, 1), text_with_names(phi, 1, names))
        N = rng.choice([2, 3, 4, 6])
        def data(poison):
            if dense:
                ts = sorted(set([0, N] + rng.sample(range(1, N), min(N - 1, rng.choice([0, 1, 2]))))) if N > 1 else [0, 1]
                xs = [[t, rng.choice([-4, -2, 0, 2, 4])] for t in ts]
                ys = [[t, rng.choice([-2, -1, 1, 2])] for t in ts]
                if poison:
                    ys[rng.randrange(len(ys))][1] = 0
                return {"x": xs, "y": ys}
            ys = [rng.choice([-2, -1, 1, 2]) for _ in range(N)]
            if poison:
                ys[rng.randrange(N)] = 0
            return {"x": [rng.choice([-4, -2, 0, 2, 4]) for _ in range(N)], "y": ys}
        seq = rng.choice([[False, True, False], [True, False], [False, True, True, False], [True, False, False]])
        if dense:
            o = ct_obj(phi, 1, ["x", "y"], text=text, factory=rng.choice(["StlDenseTimeSpecification", "StlDenseTimeOfflineSpecification"]))
            evs = [ev_parse()] + [ev_ct("evaluate", data(p_), 1) for p_ in seq]
        else:
            o = dt_obj(phi, 1, ["x", "y"], text=text, factory=rng.choice(["StlDiscreteTimeSpecification", "StlDiscreteTimeOfflineSpecification"]))
            evs = [ev_parse()] + [ev_evaluate(range(N), data(p_), 1) for p_ in seq]
        cases.append(case([o], evs, skip=["evaluate.viol"]))
    return cases


def merge_seeds(runs):
    """runs: list (per hash seed) of trace lists for the same cases -> one case list with the objects of every seed side by side"""
    out = []
    for ci in range(len(runs[0])):
        base = runs[0][ci]
        K = len(base["objs"])
        objs, evs, rels = [], [], []
        for si, run in enumerate(runs):
            c = run[ci]
            objs += c["objs"]
            for e in c["events"]:
                e2 = dict(e); e2["o"] = e["o"] + si * K
                evs.append(e2)
            if si > 0:
                for k in range(K):
                    rels.append({"rel": "same_on", "x": k + 1, "y": k + 1 + si * K})
                    rels.append({"rel": "same_off", "x": k + 1, "y": k + 1 + si * K})
        out.append(case(objs, evs, rels, skip=base["skip"]))
    return out


def main():
    import astlib
    astlib.AUTO_FUNCS = 0.2       # sqrt exp ln log pow at exact points in a fifth of the generated formulas
    rep = core.Report("C11")
    quick = core.tier() == "quick"
    ax, ay = pred("ge", var("x"), const(0)), pred("le", var("y"), const(1))
    F = [un("prev", ax), un("onceT", ay, 0, 1), bi("since", ax, ay), un("rise", ax)]
    r = mc.rtamt_mc("C11_iso", F, [mc.std_cfg(["x", "y"])], vals=(-2, 3), maxlen=2, K=2, invariants=["InvC02", "InvC10"], properties=["ActC11"])
    rep.add_mc("two objects side by side, all interleavings of parse/update/reset: a step changes one object only, each stays correct", r)
    if r["violated"]:
        rep.mc_violation("C11_iso", r)
    rng = random.Random(core.seed() * 7919 + 11)
    cases = gen_cases(rng, 500 if quick else 6000) + poisoned_cases(rng, 40 if quick else 600, dense=False)
    seeds = [0, 1, 2, 3] if quick else list(range(16))
    wd = tlc.workdir("C11_seeds")
    with open(os.path.join(wd, "cases.json"), "w") as f:
        json.dump(cases, f)
    procs = []
    for hs in seeds:
        env = dict(os.environ); env["PYTHONHASHSEED"] = str(hs)
        procs.append(subprocess.Popen(["/venv/bin/python", os.path.join(core.VERIF, "harness", "runner.py"),
                                       os.path.join(wd, "cases.json"), os.path.join(wd, "traces_%d.json" % hs)], env=env))
    for p in procs:
        if p.wait() != 0:
            raise core.Machinery("runner subprocess failed")
    runs = [json.load(open(os.path.join(wd, "traces_%d.json" % hs))) for hs in seeds]
    merged = merge_seeds(runs)
    import shutil
    shutil.rmtree(wd, ignore_errors=True)
    vs_, gen, dist = core.validate("C11", merged, batch=150)
    rep.add_traces(merged, vs_, gen, dist, nontrivial_key=lambda c: str([o["text"] for o in c["objs"][:3]]) + str(c["events"][len(c["objs"])].get("w", "")))
    # ---- dense time: two or three dense objects (offline and online) fed the *same* caller-owned sample lists
    import c05 as _c05, c04 as _c04
    dcases = []
    for i in range(len(cases) // 2):
        S = rng.choice([1, 2])
        vs = list(rng.choice([("x",), ("x", "y")]))
        end = rng.choice([3, 5, 8])
        w = {v: gen_signal(rng, rng.choice([2, 3, 4, 5]), t0=0, S=S, end=end) for v in vs}
        K = rng.choice([2, 2, 3])
        objs, evs = [], []
        for k in range(K):
            online = rng.random() < 0.5
            ops = (_c05.UNTIMED + _c05.TIMED_P) if online else _c04.DENSE_OPS
            g = Gen(rng, vars_=vs, S=S, ops=ops, ivs=_c04.IVS, bool_atoms=True)
            for _ in range(30):
                phi = g.formula(rng.choice([1, 2, 2]))
                if set(vars_of(phi)) == set(vs) and not any(q["op"] in BIN2 and not vars_of(q) for q in subformulas(phi)):
                    break
            else:
                phi = bi("and", *[pred("ge", var(v), const(0)) for v in (vs * 2)[:2]])
            if online and rng.random() < 0.3:
                # a bounded past operator (or a comparison) directly on the caller's sample lists: nothing between the operator and
                # the list object the caller handed in (seed C11-d)
                q_ = un(rng.choice(["histT", "onceT"]), var(vs[0]), *rng.choice([(0, 1), (1, 2), (0, 2), (1, 1)]))
                phi = q_ if len(vs) == 1 else bi(rng.choice(["and", "or"]), q_, rng.choice([var(vs[1]), un("histT", var(vs[1]), 0, 1), pred("ge", var(vs[1]), const(0))]))
            objs.append(ct_obj(phi, S, vs))
            evs.append(ev_parse(k + 1))
        # the signals cut into caller-owned chunks; chained chunks repeat the boundary sample (the usual way of feeding them)
        sched = {v: rng.choice(_c05.splits(len(w[v]))) for v in vs}
        chained = rng.random() < 0.6
        for k in range(K):
            online = not (ops_of(objs[k]["phi"]) & FUT) and rng.random() < 0.6
            if online and rng.random() < 0.6:
                chunks = (_c05.overlap_events if chained else _c05.schedule_events)(w, sched, k + 1)
                for j, e in enumerate(chunks):
                    e["share"] = "chunk%d" % j          # every online object of the case receives the same list objects
                    evs.append(e)
                continue
            evs.append(ev_ct("update" if online else "evaluate", w, k + 1, share="sig"))
            if not online and rng.random() < 0.4:
                evs.append(ev_ct("evaluate", w, k + 1, share="sig"))      # evaluated again on the same data
        dcases.append(case(objs, evs))
    dcases += poisoned_cases(rng, 40 if quick else 600, dense=True)
    dtr = runner.run_cases(dcases)
    dvs, dgen, ddist = core.validate("C11_dense", dtr, module="TraceCt")
    rep.add_traces(dtr, dvs, dgen, ddist, nontrivial_key=lambda c: str([o["text"] for o in c["objs"]]) + str(c["events"][-1]["w"]))
    rep.extra["dense_cases"] = len(dcases)
    rep.extra["hash_seeds"] = seeds
    rep.extra["objects_per_case"] = "1-3 objects x %d hash seeds" % len(seeds)
    return rep.finish("TLC: K=2 objects, every interleaving of their calls (isolation as an action property, each object still meets C02/C10); "
                      "traces: 1-3 specification objects (offline/online) driven in a random interleaving, every offline object evaluating "
                      "the *same* caller-owned dict (1-3 times), online objects sharing the same caller-owned sample lists; 35% padding "
                      "shapes (always/eventually[a,b] on a bare variable, b >= trace length); arguments compared with a pristine deep copy "
                      "after every call; the whole batch re-run in subprocesses under several PYTHONHASHSEED values, validated by the "
                      "same deterministic specification and compared object by object across seeds")

if __name__ == "__main__":
    core.main(main)
