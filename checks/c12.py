"""C12: get_value(name) = the robustness of the formula bound to that name (stand-alone), variables = supplied data."""
import random, sys, os
sys.path.insert(0, os.path.join(os.path.dirname(os.path.abspath(__file__)), "..", "harness"))
import core, mc, runner
from astlib import *
from cases import *
from modular import decompose
import c03 as _c03


def ev_get(n, o=1):
    return {"o": o, "a": "get", "n": n}


def gen_cases(rng, n):
    cases = []
    for i in range(n):
        S = rng.choice([1, 1, 2])
        kind = rng.choice(["off", "off", "on", "on", "past"])
        ops = ["not", "and", "or", "implies", "prev", "once", "hist", "since", "onceT", "histT", "sinceT", "rise"]
        if kind == "off":
            ops += ["ev", "alw", "until", "evT", "alwT", "untilT", "next"]
        if kind == "past":
            ops += ["evT", "alwT", "untilT", "next"]
        g = Gen(rng, vars_=rng.choice([("x",), ("x", "y")]), S=S, ops=ops, ivs=[(0, 0), (0, 1), (1, 2), (0, 3), (2, 2), (0, 6)], bool_atoms=(kind == "past" or rng.random() < 0.3))
        for _ in range(40):
            phi = g.formula(rng.choice([2, 2, 3, 3]))
            if kind == "past" and (not (ops_of(phi) & FUT) or _c03.past_over_future(phi)):
                continue
            if kind == "on" and (ops_of(phi) & FUT):
                continue
            break
        else:
            continue
        if kind == "past" and rng.random() < 0.3:
            # a bare variable next to a future operator: its name must keep denoting the supplied data after pastify()
            f_ = un(rng.choice(["evT", "alwT"]), var(rng.choice(g.vars)), *rng.choice([(0, 1), (1, 2), (0, 2)]))
            phi = bi(rng.choice(["and", "or"]), bi(rng.choice(["and", "or"]), f_, g.formula(1)), var(rng.choice(g.vars)))
            if _c03.past_over_future(phi) or (ops_of(phi) & UNB_FUT):
                continue
        vs = vars_of(phi) or ["x"]
        subs, main, cdecl, named = decompose(rng, phi, S, consts=False)
        if kind == "on" and rng.random() < 0.15:
            # a stateful sub-formula that is named at its first occurrence and written out again at a second one; its value settles
            # (unbounded once / historically) while the samples below it keep changing: get_value of the variables and of the names
            # must follow the samples (seed r11 C12-2: the results of the repeated occurrence were not refreshed while its value
            # stayed the same)
            import copy as _copy
            from modular import text_with_names
            q1 = un(rng.choice(["once", "hist", "once"]), g.atom())
            if rng.random() < 0.3:
                q1 = bi(rng.choice(["and", "or"]), q1, g.atom())
            q2 = _copy.deepcopy(q1)
            rest = rng.choice([lambda: un("not", un(rng.choice(["sprev", "prev"]), q2)), lambda: un(rng.choice(["sprev", "prev", "not"]), q2),
                               lambda: bi("or", q2, g.atom())])()
            phi = bi(rng.choice(["and", "or", "implies"]), q1, rest)
            vs = vars_of(phi) or ["x"]
            subs = ["seen = " + to_text(q1, S)]
            main = text_with_names(phi, S, {id(q1): "seen"})
            named = [("seen", q1)]
        if not named:
            continue
        o1 = dt_obj(phi, S, vs)
        style = rng.choice(["add_sub_spec", "one_text"])
        if style == "add_sub_spec":
            o1["subs"] = [s_ + ";" for s_ in subs]
            o1["text"] = "out = " + main
        else:
            o1["text"] = " ; ".join(subs + ["out = " + main])
        if rng.random() < 0.5:
            o1["declare"] = vs + [nm for nm, _ in named]
        names = {nm: q for nm, q in named}
        names["out"] = phi
        o1["names"] = names
        objs = [o1]
        idx = {}
        for nm, q in named:          # stand-alone real object per name, same configuration
            qvs = vars_of(q) or ["x"]
            objs.append(dt_obj(q, S, vs, names={}))
            idx[nm] = len(objs)
        h = horizon(phi)
        N = rng.choice([1, 2, 3, 5, 8]) + (h if kind == "past" else 0)
        w = gen_trace(rng, vs, N, S)
        getn = [nm for nm, _ in named] + ["out"] + vars_of(phi)
        rels = []
        if kind == "off":
            fac = rng.choice(["StlDiscreteTimeSpecification", "StlDiscreteTimeOfflineSpecification"])
            evs = [ev_parse(k + 1) for k in range(len(objs))]
            evs += [ev_evaluate(range(N), w, 1)] + [ev_get(nm) for nm in getn]
            for nm, k in idx.items():
                evs.append(ev_evaluate(range(N), w, k))
                rels.append({"rel": "get_off", "x": 1, "y": k, "n": nm})
        else:
            fac = rng.choice(["StlDiscreteTimeSpecification", "StlDiscreteTimeOnlineSpecification"])
            evs = [ev_parse(k + 1) for k in range(len(objs))]
            if kind == "past":
                evs += [ev_pastify(k + 1) for k in range(len(objs))]
            for t in range(N):
                evs.append(ev_update(t, sample_at(w, t), 1))
                evs += [ev_get(nm) for nm in getn]
                for nm, k in idx.items():
                    evs.append(ev_update(t, sample_at(w, t), k))
            for nm, k in idx.items():
                hn = horizon(names[nm]) if kind == "past" else 0
                rels.append({"rel": "get_on", "x": 1, "y": k, "n": nm, "k": hn + 1})
        for o in objs:
            o["factory"] = fac
        cases.append(case(objs, evs, rels, skip=["evaluate.viol"], kind=kind))
    return cases


def main():
    import astlib
    astlib.AUTO_FUNCS = 0.2       # sqrt exp ln log pow at exact points in a fifth of the generated formulas
    rep = core.Report("C12")
    quick = core.tier() == "quick"
    import c02 as _c02
    F, dup = _c02.universe()
    r = mc.rtamt_mc("C12_named", dup + F[:10], [mc.std_cfg(["x", "y"])], maxlen=3, invariants=["InvC02", "InvC10"])
    rep.add_mc("a named (shared) sub-formula has one memory whose output is its own robustness: InvC02 on the shared-operator universe", r)
    if r["violated"]:
        rep.mc_violation("C12_named", r)
    rng = random.Random(core.seed() * 7919 + 12)
    cases = gen_cases(rng, 700 if quick else 12000)
    # ---- dense time (offline, and online with one update): get_value of every name and variable
    dcases = []
    for i in range((700 if quick else 8000) // 3):
        S = rng.choice([1, 2])
        online = rng.random() < 0.4
        ops = ["not", "and", "or", "implies", "once", "hist", "since", "onceT", "histT"] + ([] if online else ["ev", "alw", "until", "evT", "alwT", "untilT"])
        delays_only = online and rng.random() < 0.3      # bounded operators as pure delays [d,d] (what pastify() inserts)
        g = Gen(rng, vars_=rng.choice([("x",), ("x", "y")]), S=S, ops=ops, ivs=([(1, 1), (2, 2)] if delays_only else [(0, 1), (1, 2), (0, 3)]),
                bool_atoms=True)
        for _ in range(30):
            phi = g.formula(rng.choice([2, 2, 3]))
            if vars_of(phi):
                break
        else:
            continue
        vs = vars_of(phi)
        subs, main, cdecl, named = decompose(rng, phi, S, consts=False)
        named = [(nm, q) for nm, q in named if vars_of(q)]
        if online and rng.random() < 0.45:
            # a named operand that repeats its boundary sample from batch to batch (bounded operators do), directly under
            # a binary operator: the parent must not disturb what get_value(name) returns
            from modular import text_with_names
            t1 = un(rng.choice(["onceT", "histT"]), g.formula(rng.choice([0, 1])), *rng.choice([(1, 1), (0, 1), (1, 2), (0, 2)]))
            t2 = g.formula(rng.choice([0, 1]))
            if not vars_of(t1):
                continue
            phi = bi(rng.choice(["and", "and", "or", "implies", "iff", "xor", "since"]), *((t1, t2) if rng.random() < 0.6 else (t2, t1)))
            vs = vars_of(phi)
            named = [("sub1", t1)]
            subs = ["sub1 = " + to_text(t1, S)]
            main = text_with_names(phi, S, {id(t1): "sub1"})
        if not named or len(named) != len(subs):
            continue
        o1 = ct_obj(phi, S, vs)
        o1["subs"] = [s_ + ";" for s_ in subs]
        o1["text"] = "out = " + main
        o1["names"] = dict([(nm, q) for nm, q in named] + [("out", phi)])
        objs = [o1]
        idx = {}
        for nm, q in named:
            objs.append(ct_obj(q, S, vs, names={}))
            idx[nm] = len(objs)
        end = rng.choice([3, 5, 8])
        w = {v: gen_signal(rng, rng.choice([2, 3, 4]), t0=0, S=S, end=end) for v in vs}
        act = "update" if online else "evaluate"
        evs = [ev_parse(k + 1) for k in range(len(objs))]
        rels = []
        multi = online and rng.random() < 0.7
        if multi:
            # several update() calls (a partition of the signals); get_value after each one
            import c05 as _c05
            sc = {v: rng.choice(_c05.splits(len(w[v]))) for v in vs}
            for e in _c05.schedule_events(w, sc, 1):
                evs.append(e)
                evs += [ev_get(nm) for nm in [nm for nm, _ in named] + ["out"] + vs]
                for nm, k in idx.items():
                    e2 = dict(e); e2["o"] = k
                    evs.append(e2)
            for nm, k in idx.items():
                rels.append({"rel": "get_seq", "x": 1, "y": k, "n": nm})
        else:
            evs.append(ev_ct(act, w, 1))
            evs += [ev_get(nm) for nm in [nm for nm, _ in named] + ["out"] + vs]
            for nm, k in idx.items():
                evs.append(ev_ct(act, w, k))
                rels.append({"rel": "get_fn", "x": 1, "y": k, "n": nm})
        dcases.append(case(objs, evs, rels, kind="ct_on" if online else "ct_off"))
    dtr = runner.run_cases(dcases)
    dvs, dgen, ddist = core.validate("C12_dense", dtr, module="TraceCt")
    rep.add_traces(dtr, dvs, dgen, ddist, nontrivial_key=lambda c: c["objs"][0]["text"] + str(c["objs"][0].get("subs")) + str(c["events"][len(c["objs"])]["w"]))
    rep.extra["dense_cases"] = {k: sum(1 for c in dcases if c["kind"] == k) for k in ("ct_on", "ct_off")}
    traces = runner.run_cases(cases)
    vs_, gen, dist = core.validate("C12", traces)
    rep.add_traces(traces, vs_, gen, dist, nontrivial_key=lambda c: c["objs"][0]["text"] + str(c["objs"][0].get("subs")) + str([e.get("w", e.get("s")) for e in c["events"] if e["o"] == 1 and e["a"] in ("update", "evaluate")]))
    rep.extra["cases_by_kind"] = {k: sum(1 for c in cases if c["kind"] == k) for k in ("off", "on", "past")}
    return rep.finish("traces: specifications with 1-3 named sub-specifications (nested, shared) through both API forms; after every "
                      "evaluate()/update() get_value is called for every name, for 'out' and for every input variable; compared (a) with "
                      "a real stand-alone specification object per name (same configuration, pastified iff the main object was) run on "
                      "the same data and (b) with Sem!Sig of the named formula (after pastify: delayed by the name's own horizon)")

if __name__ == "__main__":
    core.main(main)
