"""C12: get_value(name) = the robustness of the formula bound to that name (stand-alone), variables = supplied data."""
import random, sys, os
sys.path.insert(0, os.path.join(os.path.dirname(os.path.abspath(__file__)), "..", "harness"))
import core, mc, runner
from astlib import *
from cases import *
from modular import decompose
import c03 as _c03


def ev_get(n, o=1):
    return {"o": o, "a": "get", "n": n}


def gen_cases(rng, n):
    cases = []
    for i in range(n):
        S = rng.choice([1, 1, 2])
        kind = rng.choice(["off", "off", "on", "on", "past"])
        ops = ["not", "and", "or", "implies", "prev", "once", "hist", "since", "onceT", "histT", "sinceT", "rise"]
        if kind == "off":
            ops += ["ev", "alw", "until", "evT", "alwT", "untilT", "next"]
        if kind == "past":
            ops += ["evT", "alwT", "untilT", "next"]
        g = Gen(rng, vars_=rng.choice([("x",), ("x", "y")]), S=S, ops=ops, ivs=[(0, 0), (0, 1), (1, 2), (0, 3), (2, 2), (0, 6)], bool_atoms=False)
        for _ in range(40):
            phi = g.formula(rng.choice([2, 2, 3, 3]))
            if kind == "past" and (not (ops_of(phi) & FUT) or _c03.past_over_future(phi)):
                continue
            if kind == "on" and (ops_of(phi) & FUT):
                continue
            break
        else:
            continue
        vs = vars_of(phi) or ["x"]
        subs, main, cdecl, named = decompose(rng, phi, S, consts=False)
        if not named:
            continue
        o1 = dt_obj(phi, S, vs)
        style = rng.choice(["add_sub_spec", "one_text"])
        if style == "add_sub_spec":
            o1["subs"] = [s_ + ";" for s_ in subs]
            o1["text"] = "out = " + main
        else:
            o1["text"] = " ; ".join(subs + ["out = " + main])
        if rng.random() < 0.5:
            o1["declare"] = vs + [nm for nm, _ in named]
        names = {nm: q for nm, q in named}
        names["out"] = phi
        o1["names"] = names
        objs = [o1]
        idx = {}
        for nm, q in named:          # stand-alone real object per name, same configuration
            qvs = vars_of(q) or ["x"]
            objs.append(dt_obj(q, S, vs, names={}))
            idx[nm] = len(objs)
        h = horizon(phi)
        N = rng.choice([1, 2, 3, 5, 8]) + (h if kind == "past" else 0)
        w = gen_trace(rng, vs, N, S)
        getn = [nm for nm, _ in named] + ["out"] + vars_of(phi)
        rels = []
        if kind == "off":
            fac = rng.choice(["StlDiscreteTimeSpecification", "StlDiscreteTimeOfflineSpecification"])
            evs = [ev_parse(k + 1) for k in range(len(objs))]
            evs += [ev_evaluate(range(N), w, 1)] + [ev_get(nm) for nm in getn]
            for nm, k in idx.items():
                evs.append(ev_evaluate(range(N), w, k))
                rels.append({"rel": "get_off", "x": 1, "y": k, "n": nm})
        else:
            fac = rng.choice(["StlDiscreteTimeSpecification", "StlDiscreteTimeOnlineSpecification"])
            evs = [ev_parse(k + 1) for k in range(len(objs))]
            if kind == "past":
                evs += [ev_pastify(k + 1) for k in range(len(objs))]
            for t in range(N):
                evs.append(ev_update(t, sample_at(w, t), 1))
                evs += [ev_get(nm) for nm in getn]
                for nm, k in idx.items():
                    evs.append(ev_update(t, sample_at(w, t), k))
            for nm, k in idx.items():
                hn = horizon(names[nm]) if kind == "past" else 0
                rels.append({"rel": "get_on", "x": 1, "y": k, "n": nm, "k": hn + 1})
        for o in objs:
            o["factory"] = fac
        cases.append(case(objs, evs, rels, skip=["evaluate.viol"], kind=kind))
    return cases


def main():
    rep = core.Report("C12")
    quick = core.tier() == "quick"
    import c02 as _c02
    F, dup = _c02.universe()
    r = mc.rtamt_mc("C12_named", dup + F[:10], [mc.std_cfg(["x", "y"])], maxlen=3, invariants=["InvC02", "InvC10"])
    rep.add_mc("a named (shared) sub-formula has one memory whose output is its own robustness: InvC02 on the shared-operator universe", r)
    if r["violated"]:
        rep.mc_violation("C12_named", r)
    rng = random.Random(core.seed() * 7919 + 12)
    cases = gen_cases(rng, 700 if quick else 12000)
    traces = runner.run_cases(cases)
    vs_, gen, dist = core.validate("C12", traces)
    rep.add_traces(traces, vs_, gen, dist, nontrivial_key=lambda c: c["objs"][0]["text"] + str(c["objs"][0].get("subs")) + str([e.get("w", e.get("s")) for e in c["events"] if e["o"] == 1 and e["a"] in ("update", "evaluate")]))
    rep.extra["cases_by_kind"] = {k: sum(1 for c in cases if c["kind"] == k) for k in ("off", "on", "past")}
    return rep.finish("traces: specifications with 1-3 named sub-specifications (nested, shared) through both API forms; after every "
                      "evaluate()/update() get_value is called for every name, for 'out' and for every input variable; compared (a) with "
                      "a real stand-alone specification object per name (same configuration, pastified iff the main object was) run on "
                      "the same data and (b) with Sem!Sig of the named formula (after pastify: delayed by the name's own horizon)")

if __name__ == "__main__":
    core.main(main)
