"""C13: sampling-violation counter counts exactly the out-of-tolerance gaps."""
import random, sys, os, re
sys.path.insert(0, os.path.join(os.path.dirname(os.path.abspath(__file__)), "..", "harness"))
import core, mc, runner
from astlib import *
from cases import *

# (spec.unit, period, period unit, tS = stamp base units per spec.unit, period in base units)
CONFIGS = [
    ("s", 4, "s", 1, 4), ("s", 1, "s", 4, 4), ("s", 500, "ms", 8, 4), ("ms", 1, "s", 1, 1000),
    ("ms", 2000, "us", 4, 8), ("s", 1, "s", 1000, 1000), ("ms", 500, "ms", 1, 500), ("us", 1, "ms", 1, 1000),
    (None, None, None, 1000, 1000),
    # periods written as decimal fractions, integer time-stamps: the period means what is written (0.3 s = 300 ms), so gaps exactly
    # on the closed tolerance band [P(1-tol), P(1+tol)] are inside it
    ("ms", 0.3, "s", 1, 300), ("us", 0.7, "ms", 1, 700), ("ms", 1.1, "s", 1, 1100),
]
TOLS = [(0, 1), (1, 10), (1, 4), (1, 2), (1, 1), None]


def main():
    rep = core.Report("C13")
    quick = core.tier() == "quick"
    phi0 = pred("ge", var("x"), const(0))
    cfgs = [mc.std_cfg(["x"], period=4, tol=1), mc.std_cfg(["x"], period=4, tol=0), mc.std_cfg(["x"], period=4, tol=4)]
    INV, PROPS = ["InvC13", "InvC02", "InvC01", "InvC01cfg"], ["ActC10", "ActReconf"]
    r = mc.rtamt_mc("C13_offline", [phi0, un("once", phi0)], cfgs, vals=(1,), gaps=(0, 2, 3, 4, 5, 6, 8, 9), maxlen=4 if quick else 6,
                    mode="offline", invariants=INV, properties=PROPS)
    rep.add_mc("offline: all gap-class sequences x tolerances {0, 1/4, 1}, Reconfigure between evaluations", r)
    if r["violated"]:
        rep.mc_violation("C13_offline", r)
    # online: each tolerance on its own with all gap classes (a single configuration: Retolerance is never enabled) ...
    for k_, cfg_ in enumerate(cfgs):
        r = mc.rtamt_mc("C13_online_%d" % k_, [phi0, un("once", phi0)], [cfg_], vals=(1,), gaps=(0, 2, 3, 4, 5, 6, 8, 9), maxlen=4 if quick else 6,
                        mode="online", invariants=INV, properties=PROPS)
        rep.add_mc("online, tolerance %d/4: all gap-class sequences, Reset anywhere" % cfg_["tol"], r)
        if r["violated"]:
            rep.mc_violation("C13_online_%d" % k_, r)
    # ... and the three together: the action Retolerance moves the monitor between them between updates; every gap is judged by the
    # tolerance in force when its second sample arrives (the history of tolerances is state: smaller bounds)
    r = mc.rtamt_mc("C13_online_retol", [phi0], cfgs, vals=(1,), gaps=(0, 2, 4, 5, 8, 9), maxlen=3 if quick else 4,
                    mode="online", invariants=INV, properties=PROPS)
    rep.add_mc("online with Retolerance between updates: gap classes x tolerances {0, 1/4, 1} x Reset anywhere", r)
    if r["violated"]:
        rep.mc_violation("C13_online_retol", r)
    rr = mc.rtamt_mc("C13_devon", [phi0], cfgs[:1], vals=(1,), gaps=(2, 4), maxlen=3, dev=["resetKeepsViol"], invariants=["InvC13"],
                     expect_violation=True)
    rep.extra["deviation_on_counterexample"] = {"resetKeepsViol": rr["violated"]}
    # offline, the machine's action Reconfigure moves an object between the three tolerances between evaluations: the counter of an
    # evaluation is taken under the configuration then in force; the deviation staleConfig (the band of the first evaluation is
    # memoised) must break that
    rr = mc.rtamt_mc("C13_devstale", [phi0], cfgs, vals=(1,), gaps=(2, 4, 8), maxlen=3, mode="offline", dev=["staleConfig"],
                     invariants=["InvC13"], properties=["ActReconf"], expect_violation=True)
    rep.extra["deviation_on_counterexample"]["staleConfig"] = rr["violated"]
    # (B): TLC-simulated behaviours of the online machine with Retolerance and Reset steps, replayed on the real library
    import behaviours
    bres, behs = behaviours.simulate("C13_sim", [phi0, un("once", phi0)], ["x"], vals=(1, -2), gaps=(0, 2, 4, 5, 8, 9), num=(60 if quick else 600),
                                     depth=(7 if quick else 9), seed=core.seed(), mode="online", configs=cfgs)
    rep.add_mc("TLC simulation of Rtamt.tla, online half with Retolerance: behaviours generated for replay", bres, exhaustive=False)
    if bres["violated"]:
        rep.mc_violation("C13_sim", bres)
    bcases = behaviours.to_cases(behs, ["x"])
    btr = runner.run_cases(bcases)
    bvs, bgen, bdist = core.validate("C13_sim_replay", btr)
    rep.add_traces(btr, bvs, bgen, bdist, nontrivial_key=lambda c: c["objs"][0]["text"] + str([(e["a"], e.get("t"), e.get("tol")) for e in c["events"]]))
    rep.extra["tlc_behaviours_replayed"] = len(bcases)
    rep.extra["tlc_behaviours_with_retolerance"] = sum(1 for c in bcases if any(e["a"] == "config" for e in c["events"]))

    # Apalache: the same counter machine, symbolic in period, tolerance and time-stamps (spec/apalache/CounterAp.tla)
    import subprocess, shutil, time as _t
    apadir = os.path.join(core.VERIF, "build", "apa_%d" % os.getpid())
    def apalache(inv, length):
        t0 = _t.time()
        p_ = subprocess.run(["apalache-mc", "check", "--cinit=ConstInit", "--inv=" + inv, "--length=%d" % length, "--out-dir=" + apadir,
                             "CounterAp.tla"], cwd=os.path.join(core.VERIF, "spec", "apalache"), stdout=subprocess.PIPE,
                            stderr=subprocess.STDOUT, universal_newlines=True, timeout=1800)
        return p_.stdout, _t.time() - t0
    L = 6 if quick else 10
    out, w1 = apalache("Inv", L)
    if "The outcome is: NoError" not in out:
        if "The outcome is: Error" in out:
            rep.mc_violation("apalache CounterAp Inv", {"out": "Error: " + out[-1500:], "violated": ["Inv"]})
        else:
            raise core.Machinery("apalache failed\n" + out[-1500:])
    out2, w2 = apalache("InvOpenBand", 3)
    if "The outcome is: Error" not in out2:
        raise core.Machinery("apalache: the deviation invariant InvOpenBand was not refuted (vacuous?)\n" + out2[-800:])
    shutil.rmtree(apadir, ignore_errors=True)
    rep.extra["apalache"] = {"spec": "spec/apalache/CounterAp.tla", "inv": "Inv", "length": L, "outcome": "NoError", "wall_s": round(w1, 1),
                             "symbolic": "P in 1..2000, Tol in 0..P, non-decreasing stamps in 0..100000, Reset anywhere",
                             "deviation_InvOpenBand": "refuted"}
    # TLAPS: the counter invariant is inductive for time-stamp sequences of ANY length, every period and tolerance
    # (spec/proofs/CounterInd.tla: InitInv, StepInv, C13Unbounded)
    import tempfile
    os.makedirs(os.path.join(core.VERIF, "build"), exist_ok=True)
    pd = tempfile.mkdtemp(prefix="c13_tlaps_", dir=os.path.join(core.VERIF, "build"))
    shutil.copy(os.path.join(core.VERIF, "spec", "proofs", "CounterInd.tla"), pd)
    try:
        t0 = _t.time()
        pr = subprocess.run(["tlapm", "--threads", "8", "CounterInd.tla"], cwd=pd, stdout=subprocess.PIPE, stderr=subprocess.STDOUT,
                            universal_newlines=True, timeout=900)
        m_ = re.search(r"All (\d+) obligations proved", pr.stdout)
        if not m_:
            raise core.Machinery("tlapm did not prove spec/proofs/CounterInd.tla\n" + pr.stdout[-1500:])
        rep.extra["tlaps"] = {"module": "spec/proofs/CounterInd.tla", "theorems": ["BadFinite", "InitInv", "StepInv", "C13Unbounded"],
                              "obligations_proved": int(m_.group(1)), "wall_s": round(_t.time() - t0, 1),
                              "statement": "viol = Cardinality of the out-of-tolerance gaps since the last reset is an inductive invariant of "
                                           "the counter machine, for all integer P, Tol, time-stamps and all lengths"}
    finally:
        shutil.rmtree(pd, ignore_errors=True)
    rng = random.Random(core.seed() * 7919 + 13)
    n = 900 if quick else 20000
    cases = []
    for i in range(n):
        unit, pnum, punit, tS, P = rng.choice(CONFIGS)
        tol = rng.choice(TOLS)
        if unit is None:
            tol = None
        tn, td = tol if tol else (1, 10)
        if (P * tn) % td != 0:
            continue
        T = P * tn // td
        dyadic = tS in (1, 4, 8) and td in (1, 2, 4)
        # gap classes; exact boundary gaps only where float arithmetic is exact
        classes = [P, P, P, max(P // 2, 0), 2 * P, P + T + max(1, P // 20), max(0, P - T - max(1, P // 20)), 3 * P, 0]
        if dyadic:
            classes += [P - T, P + T, P - T, P + T]
        elif T >= 4:
            classes += [P - T // 2, P + T // 2]
        if not dyadic:
            # decimal stamps: a gap exactly on a bound of the tolerance band is at the mercy of float rounding
            classes = [g_ for g_ in classes if abs(g_ - (P - T)) * 50 > P and abs(g_ - (P + T)) * 50 > P]
            if not classes:
                continue
        N = rng.choice([1, 2, 3, 4, 5, 6, 8, 12])
        ts = [rng.choice([0, 0, 3 * P, 7])]
        for _ in range(N - 1):
            ts.append(ts[-1] + rng.choice(classes))
        S = 1
        phi = rng.choice([phi0, un("once", phi0), bi("since", phi0, pred("le", var("x"), const(2))), un("histT", phi0, 0, 2)])
        if isinstance(pnum, float) and "histT" in ops_of(phi):
            phi = un("once", phi0)
        w = gen_trace(rng, ["x"], N, S)
        online = rng.random() < 0.5
        fac = rng.choice(["StlDiscreteTimeSpecification", "StlDiscreteTimeOnlineSpecification" if online else "StlDiscreteTimeOfflineSpecification"])
        o = dt_obj(phi, S, ["x"], factory=fac, period=P, tol=T, tS=tS)
        if unit is not None:
            o["unit"] = unit
            o["set_period"] = [pnum, punit, tn / float(td)]
            # bounds are written in sampling periods: spell them in the period's unit
            for q in subformulas(phi):
                pass
            if "histT" in ops_of(phi):
                phi = un("histT", phi0, 0, 2); phi["at"] = "0"; phi["bt"] = str(2 * pnum); phi["bu"] = punit
                o["phi_text"] = phi
                o["text"] = "out = " + to_text(phi, S)
                o["phi"] = un("histT", phi0, 0, 2)
                o["skip_ast"] = True
        refused = []
        if unit is not None and rng.random() < 0.2:
            # a set_sampling_period() call that is refused (tolerance outside [0, 1]) must leave the configured period alone
            refused = [{"o": 1, "a": "config", "set_period": [pnum * rng.choice([2, 3, 10]), punit, rng.choice([1.5, -0.25, 7])], "reject": True}]
        SMALLER = {"s": "ms", "ms": "us", "us": "ns"}
        def restated():
            # the same period and a (possibly) new tolerance, the period possibly re-stated in the next smaller unit (1 s = 1000 ms)
            tol2 = rng.choice([t_ for t_ in TOLS if t_ and (P * t_[0]) % t_[1] == 0])
            T2 = P * tol2[0] // tol2[1]
            if not (dyadic or all(abs(g_ - (P - T2)) * 50 > P and abs(g_ - (P + T2)) * 50 > P for g_ in classes)):
                tol2, T2 = (tn, td), T
            pn2, pu2 = (pnum * 1000, SMALLER[punit]) if rng.random() < 0.6 and pnum < 10 ** 6 else (pnum, punit)
            return {"o": 1, "a": "config", "set_period": [pn2, pu2, tol2[0] / float(tol2[1])], "period": P, "tol": T2}
        if online:
            evs = [ev_parse()] + refused
            k0 = rng.randrange(N + 1) if rng.random() < 0.3 else None
            kc = rng.randrange(N + 1) if unit is not None and rng.random() < 0.3 else None
            for k in range(N):
                if kc == k and rng.random() < 0.5:
                    evs.append(restated())
                if k0 == k:
                    evs.append(ev_reset())
                if kc == k and evs[-1].get("a") != "config" and (len(evs) < 2 or evs[-2].get("a") != "config"):
                    evs.append(restated())
                evs.append(ev_update(ts[k], sample_at(w, k)))
        else:
            evs = [ev_parse()] + refused + [ev_evaluate(ts, w)]
            if rng.random() < 0.3:
                # the same object evaluates a second data set (the same, or another time column): the counter is per data set
                ts2 = list(ts)
                if rng.random() < 0.6:
                    ts2 = [ts[0]]
                    for _ in range(N - 1):
                        ts2.append(ts2[-1] + rng.choice(classes))
                if unit is not None and rng.random() < 0.5:
                    # another tolerance, set between the two evaluations: the counter of the second data set is taken with it
                    evs.append(restated())
                evs.append(ev_evaluate(ts2, gen_trace(rng, ["x"], N, S)))
        c = case([o], evs)
        if o.get("skip_ast"):
            c["skip"] = ["parse.ast"]
        cases.append(c)
    traces = runner.run_cases(cases)
    vs_, gen, dist = core.validate("C13", traces)
    def key(c):
        es = c["events"]
        return str(c["objs"][0].get("set_period")) + str(c["objs"][0].get("unit")) + str([e.get("t", e.get("ts")) for e in es])
    rep.add_traces(traces, vs_, gen, dist, nontrivial_key=key)
    return rep.finish("TLC: counter machine over all sequences of gap classes {0, far below, at lower bound, inside, at upper bound, far "
                      "above} for tolerances 0, 1/4, 1 with Reset anywhere, online and offline; traces: 9 (default unit, period, period "
                      "unit) configurations x 5 tolerances x random gap-class sequences of length 1..12 through update() and through "
                      "evaluate() on the combined, online-only and offline-only factories; counter compared after every call")

if __name__ == "__main__":
    core.main(main)
