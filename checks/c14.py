"""C14: the parser accepts exactly the specification language and fails only with RTAMTException."""
import itertools, random, sys, os
sys.path.insert(0, os.path.join(os.path.dirname(os.path.abspath(__file__)), "..", "harness"))
import core, runner, lang
from astlib import *

OPS = UN_BOOL + UN_TIMED + BIN_BOOL + ["sinceT", "untilT", "unlessT", "unless"]


def mk_case(ts, rng, timeout=5):
    data = {"time": [0, 1]}
    for j, nm in enumerate(sorted({t["v"] for t in ts if t["k"] == "id"} | {"x", "y"})):
        data[nm] = [1 + j, -2 + j]
        data[nm.rstrip(".") or nm] = data[nm]       # "q." names the variable q
    return {"mode": "C14", "tokens": lang.strip(ts), "text": lang.render(ts), "consts": ["k"], "constdecl": [["k", "2"]],
            "declare": ["x", "y"], "data": data, "factory": "StlDiscreteTimeOfflineSpecification", "timeout": timeout}


def main():
    rep = core.Report("C14")
    quick = core.tier() == "quick"
    rng = random.Random(core.seed() * 7919 + 14)
    # (A): a theorem of the language model itself - every token string the model's precedence parser accepts is derivable by the
    # recogniser (all strings up to length 4 / 5 over one token per class); some strings do parse (the theorem is not vacuous)
    import langmc
    r = langmc.run("C14_subset", "strings", maxl=4 if quick else 5)
    rep.add_mc("LangMC!SubsetThm: ParseAssertion accepts => Derivable, for all token strings up to length %d over 17 token classes" % (4 if quick else 5), r)
    if r["violated"]:
        rep.mc_violation("LangMC_SubsetThm", r)
    rr = langmc.run("C14_subset_nv", "strings", maxl=3, invariant="NoneParses", expect_violation=True)
    rep.extra["non_vacuity"] = {"some string of length <= 3 is accepted by the parser model": rr["violated"]}
    # TLAPS: the two arithmetic facts the duration comparison of Lang!StaticOK (DurLE: divide instead of multiply, to stay within
    # 32 bits) rests on, proved for all naturals (spec/proofs/DurLemma.tla)
    import subprocess, shutil, tempfile
    pd = tempfile.mkdtemp(prefix="c14_tlaps_", dir=os.path.join(core.VERIF, "build"))
    shutil.copy(os.path.join(core.VERIF, "spec", "proofs", "DurLemma.tla"), pd)
    try:
        pr = subprocess.run(["tlapm", "DurLemma.tla"], cwd=pd, stdout=subprocess.PIPE, stderr=subprocess.STDOUT, universal_newlines=True, timeout=600)
        if "All 4 obligations proved" not in pr.stdout:
            raise core.Machinery("tlapm did not prove spec/proofs/DurLemma.tla\n" + pr.stdout[-1500:])
        rep.extra["tlaps"] = {"module": "spec/proofs/DurLemma.tla", "theorems": ["DivDown", "DivUp"], "obligations_proved": 4}
    finally:
        shutil.rmtree(pd, ignore_errors=True)
    cases = []
    # (1) exhaustive short token strings over a reduced alphabet (one representative per class)
    reps = [lang.T("id", "x", "x"), lang.T("num", 1, "1"), lang.T("("), lang.T(")"), lang.T("["), lang.T("]"), lang.T(","), lang.T(";"),
            lang.T("="), lang.T("-"), lang.T("cmp", "ge", ">="), lang.T("not", "", "not"), lang.T("alw", "", "always"),
            lang.T("until", "", "until"), lang.T("and", "", "and"), lang.T("abs", "", "abs"), lang.T("ill", "", "#"), lang.T("unit", "s", "s")]
    L = 3 if quick else 4
    for n in range(1, L + 1):
        for combo in itertools.product(reps, repeat=n):
            if n == L and quick and rng.random() < 0.6:
                continue
            cases.append(mk_case(list(combo), rng))
    exhaustive_n = len(cases)
    # (2) random token strings, (3) mutated well-formed specifications, (4) specific shapes
    m = 1500 if quick else 30000
    for i in range(m):
        k = rng.random()
        if k < 0.35:
            ts = lang.random_tokens(rng, rng.choice([1, 2, 3, 4, 5, 6, 8, 12]))
        else:
            g = Gen(rng, vars_=("x", "y", "sub"), S=1, ops=OPS, ivs=[(0, 1), (1, 2), (2, 2), (0, 3), (3, 1), (2, 0)],
                    arith=("add", "sub", "mul", "abs", "neg"), bool_atoms=True)
            phi = g.formula(rng.choice([1, 2, 2, 3]))
            ts = lang.assertion(lang.toks(phi, rng, 0.2), rng)
            if rng.random() < 0.3:     # bounds given by identifiers (declared constant k, variable x, undeclared q), units
                for j, t in enumerate(ts):
                    if t["k"] == "num" and j > 0 and ts[j - 1]["k"] in ("[", ",", ":") and rng.random() < 0.5:
                        nm = rng.choice(["k", "k", "x", "q"])
                        ts[j] = lang.T("id", nm, nm)
            if rng.random() < 0.2:     # declarations / several assertions in front
                pre = rng.choice([[lang.T("type", "", "float"), lang.T("id", "z", "z")],
                                  [lang.T("const", "", "const"), lang.T("type", "", "float"), lang.T("id", "c", "c"), lang.T("="), lang.T("num", 2, "2")],
                                  [lang.T("io", "", "input"), lang.T("type", "", "float"), lang.T("id", "z", "z")],
                                  [lang.T("id", "sub", "sub"), lang.T("="), lang.T("id", "x", "x"), lang.T("cmp", "ge", ">="), lang.T("num", 1, "1"), lang.T(";")]])
                ts = pre + ts
            if k < 0.8:
                ts = lang.mutate(rng, ts)
        if ts:
            cases.append(mk_case(ts, rng))
    # (5) every combination of two small literal bounds and their unit suffixes (none / s / ms / us) on a unary and a binary
    # bounded operator: a unit written on one bound only applies to both, so [2ms:1] is ill-formed and [1:2ms] is not
    nums = [0, 1, 2, 500]
    units = ["", "s", "ms", "us"]
    combos = [(a, ua, b, ub) for a in nums for ua in units for b in nums for ub in units]
    if not quick:
        combos = combos * 4              # (each with other operators / separators)
    for a, ua, b, ub in combos:
        iv = [lang.T("[")] + [lang.T("num", a, str(a))] + ([lang.T("unit", ua, ua)] if ua else []) + [lang.T(rng.choice([":", ","]))] + \
             [lang.T("num", b, str(b))] + ([lang.T("unit", ub, ub)] if ub else []) + [lang.T("]")]
        atom_x = [lang.T("id", "x", "x"), lang.T("cmp", "ge", ">="), lang.T("num", 1, "1")]
        if rng.random() < 0.6:
            kw_ = rng.choice([("alw", "always"), ("ev", "eventually"), ("once", "once"), ("hist", "historically")])
            ts = [lang.T("id", "out", "out"), lang.T("="), lang.T(kw_[0], "", kw_[1])] + iv + [lang.T("(")] + atom_x + [lang.T(")")]
        else:
            kw_ = rng.choice([("until", "until"), ("since", "since")])
            ts = [lang.T("id", "out", "out"), lang.T("="), lang.T("(")] + atom_x + [lang.T(")"), lang.T(kw_[0], "", kw_[1])] + iv + \
                 [lang.T("("), lang.T("id", "y", "y"), lang.T("cmp", "ge", ">="), lang.T("num", 1, "1"), lang.T(")")]
        cases.append(mk_case(ts, rng))
    # (6) annotations and imports: a topic annotation on a variable, on a constant declared in the text, on an undeclared name;
    # a variable whose type is imported from a module - an existing class, a name the module does not have, an object that is
    # not a class (the imported object is instantiated by parse())
    T_ = lang.T
    asrt = [T_("id", "out", "out"), T_("="), T_("id", "x", "x"), T_("cmp", "ge", ">="), T_("num", 1, "1")]
    topic = lambda nm: [T_("@", "", "@"), T_("topic", "", "topic"), T_("("), T_("id", nm, nm), T_(","), T_("id", "tp", "tp"), T_(")")]
    constd = [T_("const", "", "const"), T_("type", "", "int"), T_("id", "c", "c"), T_("="), T_("num", 1, "1")]
    vard = lambda ty, nm: [T_("id", ty, ty) if ty not in ("float", "int") else T_("type", "", ty), T_("id", nm, nm)]
    imp = lambda mod, nm: [T_("from", "", "from"), T_("id", mod, mod), T_("import", "", "import"), T_("id", nm, nm)]
    for ts in ([vard("float", "z") + topic("z") + asrt, constd + topic("c") + asrt, topic("nope") + asrt, topic("x") + asrt,
                imp("vmsgs", "Msg") + vard("Msg", "m") + asrt, imp("vmsgs", "Nope") + vard("Nope", "m") + asrt,
                imp("math", "pi") + vard("pi", "m") + asrt, imp("os", "Foo") + vard("Foo", "m") + asrt, imp("nosuchmodule", "Msg") + vard("Msg", "m") + asrt,
                imp("time", "sleep") + vard("sleep", "m") + asrt, vard("Msg", "m") + asrt,
                # a module that raises while it is imported; a field whose getter raises; identifiers that end in a dot
                imp("vbadmod", "T") + vard("T", "m") + asrt,
                imp("vmsgs", "Touchy") + vard("Touchy", "m") + [T_("id", "out", "out"), T_("="), T_("id", "m.p", "m.p"), T_("cmp", "ge", ">="), T_("num", 1, "1")],
                imp("vmsgs", "Touchy") + vard("Touchy", "m") + [T_("id", "m.p", "m.p"), T_("="), T_("id", "x", "x"), T_("cmp", "ge", ">="), T_("num", 1, "1")],
                [T_("id", "out", "out"), T_("="), T_("id", "q.", "q."), T_("cmp", "ge", ">="), T_("num", 1, "1")],
                [T_("id", "a.", "a."), T_("="), T_("id", "x", "x"), T_("cmp", "ge", ">="), T_("num", 1, "1")],
                vard("float", "x") + [T_("id", "out", "out"), T_("="), T_("id", "x.", "x."), T_("cmp", "ge", ">="), T_("num", 1, "1")]]):
        cases.append(mk_case([t for grp in [ts] for t in grp], rng))
    # a bound given by a constant whose value is not a finite number (declare_const('k', 'float', 'inf'))
    for val in ("inf", "nan", "-inf"):
        c = mk_case([T_("id", "out", "out"), T_("="), T_("alw", "", "always"), T_("["), T_("num", 0, "0"), T_(":"), T_("id", "k", "k"), T_("]"),
                     T_("(")] + asrt[2:] + [T_(")")], rng)
        c["constdecl"] = [["k", val]]
        cases.append(c)
    # identifiers with a field or a trailing dot whose head is known to the parser in another role: a constant declared through
    # the API (k) or in the text (c), the name of an earlier assertion (sub), the output itself (seed C14-f)
    subd = [T_("id", "sub", "sub"), T_("="), T_("id", "x", "x"), T_("cmp", "ge", ">="), T_("num", 1, "1"), T_(";")]
    for head, pre in (("k", []), ("c", constd), ("sub", subd), ("out", []), ("x", []), ("x", vard("float", "x"))):
        for tail in (".value", ".", ".a.b"):
            nm = head + tail
            for ts in (pre + [T_("id", "out", "out"), T_("="), T_("id", nm, nm), T_("cmp", "ge", ">="), T_("num", 1, "1")],
                       pre + [T_("id", "out", "out"), T_("="), T_("(")] + asrt[2:] + [T_(")"), T_("and", "", "and"), T_("("), T_("id", nm, nm), T_("cmp", "ge", ">="), T_("num", 1, "1"), T_(")")],
                       pre + [T_("id", nm, nm), T_("=")] + asrt[2:]):
                cases.append(mk_case(ts, rng))
    # a constant whose declared value is not a number, used as an operand and as a bound (declare_const('k', 'float', 'abc'))
    for val in ("abc", "", "1,5", "0x10", "@None"):
        for ts in ([T_("id", "out", "out"), T_("="), T_("id", "x", "x"), T_("cmp", "ge", ">="), T_("id", "k", "k")],
                   [T_("id", "out", "out"), T_("="), T_("abs", "", "abs"), T_("("), T_("id", "k", "k"), T_(")"), T_("cmp", "ge", ">="), T_("id", "x", "x")],
                   [T_("id", "out", "out"), T_("="), T_("once", "", "once"), T_("["), T_("id", "k", "k"), T_(":"), T_("id", "k", "k"), T_("]"), T_("(")] + asrt[2:] + [T_(")")]):
            c = mk_case(ts, rng)
            c["constdecl"] = [["k", val]]
            cases.append(c)
    # empty and blank texts
    for txt in ("", " ", ";", "\n"):
        c = mk_case([lang.T(";")] if txt.strip() == ";" else [], rng)
        c["text"] = txt
        cases.append(c)
    cases = [c for c in cases if c["tokens"] or c["text"].strip() == ""]
    for c in cases:
        if not c["tokens"]:
            c["tokens"] = []
    # a tenth of the texts through the LTL front end (LTL lexer / parser / error listener with the same interpreter): it accepts a subset
    # of the language, and whatever it refuses it must refuse with RTAMTException too (seed r11 C14-2: the listener of the LTL front
    # end raised AttributeError for a character that starts no token)
    for c in cases:
        if rng.random() < 0.1 and c.get("factory") == "StlDiscreteTimeOfflineSpecification":
            c["factory"] = "ltl_offline"
    # a third of the cases next to another live object that declared, for itself, the names this text leaves undeclared: q, c, z as
    # constants, sub as a variable (seed r9 C14-1: constant tables shared by all objects - a bound q was then "declared")
    for c in cases:
        if rng.random() < 0.33 and not c.get("neighbour"):
            c["neighbour"] = {"declare": ["x", "sub"], "constdecl": [["q", "3"], ["c", "7"], ["z", "1"]],
                              "text": "out = always[0:q](x >= c)", "factory": c.get("factory") if str(c.get("factory", "")).startswith("Stl") else "StlDiscreteTimeOfflineSpecification"}
    out = runner.run_text_cases(cases)
    vs_, gen, dist = core.validate("C14", out, module="TraceLang", batch=2000)
    rep.add_traces(out, vs_, gen, dist, nontrivial_key=lambda c: c["text"])
    acc = sum(1 for c in out if c["outcome"] == "ok")
    der = sum(1 for v in vs_ if v.get("derivable"))
    rep.extra.update({"exhaustive_token_strings_up_to_length": L, "exhaustive_strings": exhaustive_n, "accepted_by_parser": acc,
                      "derivable_by_model": der, "derivable_but_rejected_with_RTAMTException": sum(1 for c, v in zip(out, vs_) if v.get("derivable") and c["outcome"] == "RTAMT")})
    rep.samples = [{"text": c["text"], "outcome": c["outcome"]} for c in out[exhaustive_n:exhaustive_n + 5]]
    rep.assumptions.append("termination of parse() is decided by a wall-clock limit of 5 s per text")
    return rep.finish("traces: (1) all token strings up to length L over one representative per token class, (2) random token strings, "
                      "(3) well-formed specifications (all operators, aliases, intervals with literal / constant / variable / undeclared "
                      "bounds, begin > end, declarations, several assertions) and their mutations (delete / insert / replace / duplicate a "
                      "token, truncate, illegal characters, unused lexer tokens), (4) empty texts; each text is parsed by the real parser "
                      "under a time limit and, when accepted, evaluated once; Lang!Derivable and Lang!StaticOK decide whether acceptance "
                      "was legitimate; any outcome other than success or RTAMTException is a violation")

if __name__ == "__main__":
    core.main(main)
