"""C15: syntactic variants (aliases, separators, parentheses, optional ';' and head) and documented sugar denote the same monitor."""
import random, sys, os
sys.path.insert(0, os.path.join(os.path.dirname(os.path.abspath(__file__)), "..", "harness"))
import core, runner, lang
from astlib import *
from cases import *

OPS = UN_BOOL + UN_TIMED + BIN_BOOL + ["sinceT", "untilT", "unlessT", "unless"]
IVS = [(0, 0), (0, 1), (1, 2), (0, 3), (2, 2)]


def chains(rng):
    """parenthesis-free chains of two or three binary operators from all pairs of precedence levels, optionally with
    prefix operators in front of operands: built as trees, printed with minimal parentheses"""
    bins = ["mul", "add", "pred", "until", "since", "and", "or", "implies", "iff", "xor", "untilT", "unlessT", "unless"]
    pre = ["not", "alw", "ev", "once", "prev", "next", "neg", "histT"]
    def leaf():
        return rng.choice([var("x"), var("y"), const(rng.choice([1, 2, 3, 12]))])
    def mk(op, l, r):
        if op == "pred":
            return pred(rng.choice(["ge", "lt", "eq"]), l, r)
        if op in BIN_TIMED:
            a, b = rng.choice(IVS)
            return bi(op, l, r, a, b)
        return bi(op, l, r)
    def pfx(q):
        if rng.random() < 0.3:
            o = rng.choice(pre)
            if o == "histT":
                return un(o, q, *rng.choice(IVS))
            return un(o, q)
        return q
    o1, o2 = rng.choice(bins), rng.choice(bins)
    shape = rng.random()
    if shape < 0.45:
        t = mk(o1, mk(o2, pfx(leaf()), pfx(leaf())), pfx(leaf()))
    elif shape < 0.9:
        t = mk(o1, pfx(leaf()), mk(o2, pfx(leaf()), pfx(leaf())))
    else:
        t = mk(o1, mk(o2, pfx(leaf()), leaf()), mk(rng.choice(bins), leaf(), pfx(leaf())))
    return pfx(t)


def main():
    rep = core.Report("C15")
    quick = core.tier() == "quick"
    rng = random.Random(core.seed() * 7919 + 15)
    # (A): un-parse / parse round trip inside the language model - for every AST of depth <= 2 the spelling with the fewest
    # parentheses the precedence order allows, and the fully parenthesised one, are derivable and parse back to the AST
    import langmc
    X, Y, K1 = var("x"), var("y"), const(1)
    UNO = ["neg", "not", "prev", "next", "sprev", "snext", "once", "hist", "ev", "alw", "abs", "rise"]
    BINO = ["add", "sub", "mul", "div", "and", "or", "implies", "iff", "xor", "since", "until", "unless"]
    if quick:
        UNO, BINO = rng.sample(UNO, 7), rng.sample(BINO, 7)
    D1 = [X, K1] + [un(o, a) for o in UNO for a in (X, K1)] + [un(o, X, 0, 1) for o in ("onceT", "alwT", "evT", "histT")] + \
         [bi(o, X, Y) for o in BINO] + [pred("ge", X, K1)] + [bi(o, X, Y, 1, 2) for o in ("sinceT", "untilT", "unlessT")]
    AST = D1 + [un(o, a) for o in UNO for a in D1] + [un(o, a, 0, 1) for o in ("onceT", "alwT") for a in D1] + \
          [bi(o, a, b) for o in BINO for a in D1 for b in D1] + [pred("ge", a, b) for a in D1 for b in D1] + \
          [bi(o, a, b, 1, 2) for o in ("sinceT", "untilT") for a in D1[:12] for b in D1[:12]]
    r = langmc.run("C15_roundtrip", "asts", asts=AST, workers=12)
    rep.add_mc("LangMC!RoundTrip: Derivable and ParseAssertion(Unparse(p)) = p for %d ASTs of depth <= 2 (minimal and full parentheses)" % len(AST), r)
    if r["violated"]:
        rep.mc_violation("LangMC_RoundTrip", r)
    n = 1500 if quick else 12000
    cases = []
    for i in range(n):
        if rng.random() < 0.5:
            phi = chains(rng)
        else:
            g = Gen(rng, vars_=("x", "y"), S=1, ops=OPS, ivs=IVS, arith=("add", "sub", "mul", "abs", "neg"), bool_atoms=True, consts=(0, 1, 2, 3, 12))
            phi = g.formula(rng.choice([1, 2, 2, 3]))
        online = not (ops_of(phi) & FUT) and rng.random() < 0.4
        N = rng.choice([2, 3, 5])
        data = {"time": list(range(N))}
        for v in ("x", "y"):
            data[v] = [rng.randint(-3, 4) for _ in range(N)]
        fac = "StlDiscreteTimeSpecification"
        canon = lang.assertion(lang.full_toks(phi), None, head=True, semi=True)
        variants = [canon]
        variants.append(lang.assertion(lang.toks(phi, rng, 0.0), rng))                # minimal parentheses, random aliases
        variants.append(lang.assertion(lang.toks(phi, rng, 0.25), rng))               # redundant parentheses
        if not quick:
            variants.append(lang.assertion(lang.full_toks(phi, rng), rng))
        ltl = not (ops_of(phi) & TIMED)
        facs = [fac] * len(variants)
        if ltl:     # untimed formula: the LTL front end must build the same AST and give the same result
            variants.append(lang.assertion(lang.toks(phi, rng, 0.1), rng)); facs.append("ltl_offline")
        for k, ts in enumerate(variants):
            fac = facs[k]
            text = lang.render(ts)
            if k > 0 and rng.random() < 0.3:
                # white space is not part of the language: blanks / line breaks around the text, also after the final ";"
                # (rtamt rejects white space after a final ";" - it appends a second one; not covered by the property, see DESIGN 8)
                text = rng.choice(["", " ", "\n"]) + text.replace(" ", rng.choice([" ", "  ", "\n", "\t"]), 1) + \
                       ("" if text.endswith(";") else rng.choice([" ", "\n", "  \n\n", "\t"]))
            cases.append({"mode": "C15", "tokens": lang.strip(ts), "text": text, "consts": [], "declare": ["x", "y"],
                          "phi": phi, "data": data, "online": online and fac != "ltl_offline", "factory": fac, "group": i, "variant": k})
    # "phi unless[a,b] psi equals always[0,b] phi or phi until[a,b] psi" when the bounds are written with units: every way of putting
    # units on the two bounds (both / end only / begin only / none, s ms us), default unit s or ms, sampling period 1 s .. 250 us;
    # the sugar and its expansion (the always-part with the resolved unit on both bounds) side by side (seeds C15-g, C08-g)
    import copy, c08 as _c08
    from cases import dt_obj, ev_parse, ev_pastify, ev_evaluate, ev_update, case, sample_at
    ucases = []
    for i in range(150 if quick else 2500):
        g = Gen(rng, vars_=("x", "y"), S=1, ops=["not", "and", "or", "onceT", "once"], ivs=[(0, 1), (1, 2)], bool_atoms=False)
        p_, q_ = g.formula(rng.choice([0, 0, 1])), g.formula(rng.choice([0, 0, 1]))
        a_ = rng.choice([0, 1, 2]); b_ = a_ + rng.choice([0, 1, 2, 3])
        sugar = bi("unlessT", p_, q_, a_, b_)
        expan = bi("or", un("alwT", copy.deepcopy(p_), 0, b_), bi("untilT", copy.deepcopy(p_), copy.deepcopy(q_), a_, b_))
        if rng.random() < 0.3:
            ctx = rng.choice([lambda f: un("not", f), lambda f: bi("and", f, pred("ge", var("x"), const(0))), lambda f: un("evT", f, 0, 1)])
            sugar, expan = ctx(sugar), ctx(expan)
        pnum, punit = rng.choice([(1, "s"), (500, "ms"), (2, "ms"), (250, "us"), (1, "ms"), (2, "s")])
        period_ns = pnum * 10 ** _c08.E[punit]
        default = rng.choice(["s", "ms", "s"])
        w1, _st = _c08.write_ast(rng, sugar, period_ns, default)
        w2 = copy.deepcopy(expan)
        qs = [q for q in subformulas(w1) if q["op"] == "unlessT"][0]
        rest1 = [q for q in subformulas(w1) if q["op"] in TIMED and q["op"] != "unlessT"]
        ub_res = qs["bu"] or qs["au"] or default
        sp = {k_: qs[k_] for k_ in ("aw", "bw", "au", "bu", "at", "bt", "fa", "fb")}
        for q in subformulas(w2):
            if q["op"] == "untilT" and "aw" not in q:
                q.update(sp)
        # the always-part and the other timed nodes, in document order: copy the spellings of the sugar's other nodes by position
        alw = [q for q in subformulas(w2) if q["op"] == "alwT" and "aw" not in q and q["a"] == 0 and q["b"] == b_]
        others2 = [q for q in subformulas(w2) if q["op"] in TIMED and "aw" not in q and not any(q is a__ for a__ in alw[:1])]
        if not alw:
            continue
        alw[0].update({"aw": [0, 1], "bw": qs["bw"], "au": ub_res, "bu": ub_res, "at": "0", "bt": qs["bt"], "fa": "0", "fb": qs["fb"]})
        # remaining timed nodes (inside p, q, the context): spelled unit-less in the default unit on both sides
        def plain(q):
            f_ = lambda k_: _c08.Fraction(k_ * period_ns, 10 ** _c08.E[default])
            fa, fb = f_(q["a"]), f_(q["b"])
            q.update({"aw": [fa.numerator, fa.denominator], "bw": [fb.numerator, fb.denominator], "au": default, "bu": default,
                      "at": _c08.lit_text(rng, fa), "bt": _c08.lit_text(rng, fb), "fa": str(float(fa)), "fb": str(float(fb))})
        for q in rest1 + others2:
            plain(q)
        if any((_c08.Fraction(*q["aw"]) * 1000).denominator != 1 or (_c08.Fraction(*q["bw"]) * 1000).denominator != 1 for q in subformulas(w1) + subformulas(w2) if q["op"] in TIMED):
            continue
        units = {"def": default, "pnum": pnum, "pden": 1, "punit": punit}
        objs = [dt_obj(f_, 1, ["x", "y"], text="out = " + to_text(w_, 1), written=w_, units=units, unit=default, set_period=[pnum, punit, 0.1], styles=[])
                for f_, w_ in ((sugar, w1), (expan, w2))]
        h = horizon(sugar)
        kind = rng.choice(["off", "off", "past"])
        N = rng.choice([2, 3, 5, 8]) + (h if kind == "past" else 0)
        wd_ = {v: [rng.randint(-4, 4) for _ in range(N)] for v in ("x", "y")}
        if kind == "off":
            evs = [ev_parse(1), ev_parse(2), ev_evaluate(range(N), wd_, 1), ev_evaluate(range(N), wd_, 2)]
            rels = [{"rel": "same_off", "x": 1, "y": 2}]
        else:
            evs = [ev_parse(1), ev_parse(2), ev_pastify(1), ev_pastify(2)]
            for t in range(N):
                evs += [ev_update(t, sample_at(wd_, t), 1), ev_update(t, sample_at(wd_, t), 2)]
            rels = [{"rel": "same_on_from", "x": 1, "y": 2, "k": h + 1}]
        ucases.append(case(objs, evs, rels, skip=["evaluate.viol", "update.viol"], timeout=8))
    utr = runner.run_cases(ucases)
    uvs, ugen, udist = core.validate("C15_units", utr)
    rep.add_traces(utr, uvs, ugen, udist, nontrivial_key=lambda c: str([o["text"] for o in c["objs"]]) + str(c["events"][-1].get("w", c["events"][-1].get("s"))))
    rep.extra["unless_with_units_cases"] = len(ucases)
    out = runner.run_text_cases(cases)
    ref = {}
    for c in out:
        if c["variant"] == 0:
            ref[c["group"]] = c
    for c in out:
        c["refRet"] = ref[c["group"]]["ret"]
    vs_, gen, dist = core.validate("C15", out, module="TraceLang")
    # the canonical spelling must be accepted: its result is the reference of its group
    for c, v in zip(out, vs_):
        if c["variant"] == 0 and c["outcome"] != "ok" and v["ok"]:
            v["ok"] = False; v["clause"] = "canonical.rejected"; v["got"] = c["outcome"]
    rep.add_traces(out, vs_, gen, dist, nontrivial_key=lambda c: c["text"])
    rej = sum(1 for v in vs_ if v.get("rejected"))
    rep.extra["rejected_spellings"] = rej
    rep.extra["spellings"] = len(out)
    if rej * 2 > len(out):
        raise core.Machinery("more than half of the spellings were rejected by the parser: the run is vacuous")
    rep.samples = [{"text": c["text"], "outcome": c["outcome"]} for c in out[:6]]
    return rep.finish("traces: for each AST (random formulas; parenthesis-free chains of 2-3 binary operators from all pairs of precedence "
                      "levels with prefix operators in front of operands; bounded unless) several spellings - fully parenthesised canonical, "
                      "minimal parentheses by the grammar's alternative order, redundant parentheses; random operator aliases, ',' or ':' "
                      "in intervals, with/without trailing ';' and assertion head; Lang!ParseAssertion (the grammar model) must produce the "
                      "AST from the tokens, the real parser's read-back AST must equal it (unless desugared), and evaluation (offline or "
                      "online) must equal that of the canonical spelling")

if __name__ == "__main__":
    core.main(main)
