"""C16: settled offline results are stable under trace extension (discrete time here, dense time via c16 dense cases)."""
import random, sys, os
sys.path.insert(0, os.path.join(os.path.dirname(os.path.abspath(__file__)), "..", "harness"))
import core, mc, runner
from astlib import *
from cases import *
import c03 as _c03


def gen_cases(rng, n):
    cases = []
    OPS = [o for o in UN_BOOL + UN_TIMED + BIN_BOOL + ["sinceT", "untilT"] if o not in UNB_FUT]
    for i in range(n):
        S = rng.choice([1, 1, 2])
        pure_past = rng.random() < 0.25
        ops = [o for o in OPS if not (pure_past and o in FUT)]
        g = Gen(rng, vars_=rng.choice([("x",), ("x", "y")]), S=S, ops=ops, ivs=[(0, 0), (0, 1), (1, 2), (2, 2), (0, 3), (1, 3), (0, 6)])
        phi = g.formula(rng.choice([1, 2, 2, 3, 3, 4]))
        vs = vars_of(phi) or ["x"]
        h = horizon(phi)
        N1 = rng.choice([1, 2, 3, 4, 6, 8])
        ext = rng.choice([1, 1, 2, 3, 6])
        w1 = gen_trace(rng, vs, N1, S)
        wx = gen_trace(rng, vs, ext, S, extremes=True)
        if rng.random() < 0.5:
            wx = {v: [rng.choice([-99, 99]) * S for _ in range(ext)] for v in vs}
        w2 = {v: w1[v] + wx[v] for v in vs}
        fac = rng.choice(["StlDiscreteTimeSpecification", "StlDiscreteTimeOfflineSpecification"])
        same_obj = rng.random() < 0.3
        if same_obj:   # the same object evaluated twice (first the prefix, then the extension)
            objs = [dt_obj(phi, S, vs, factory=fac)]
            evs = [ev_parse(1), ev_evaluate(range(N1), w1, 1), ev_evaluate(range(N1 + ext), w2, 1)]
            # relation evaluated between the two results needs two observation slots: use a twin object for the prefix
            objs.append(dt_obj(phi, S, vs, factory=fac))
            evs += [ev_parse(2), ev_evaluate(range(N1), w1, 2)]
            rels = [{"rel": "settled", "x": 2, "y": 1, "h": h}]
        else:
            objs = [dt_obj(phi, S, vs, factory=fac), dt_obj(phi, S, vs, factory=fac)]
            evs = [ev_parse(1), ev_parse(2), ev_evaluate(range(N1), w1, 1), ev_evaluate(range(N1 + ext), w2, 2)]
            rels = [{"rel": "settled", "x": 1, "y": 2, "h": h}]
        cases.append(case(objs, evs, rels, skip=["evaluate.viol"]))
    return cases


def main():
    import astlib
    astlib.AUTO_FUNCS = 0.2       # sqrt exp ln log pow at exact points in a fifth of the generated formulas
    rep = core.Report("C16")
    quick = core.tier() == "quick"
    F, pof = _c03.universe()
    ax, ay = pred("ge", var("x"), const(0)), pred("le", var("y"), const(1))
    past = [un("once", ax), un("histT", ay, 0, 2), bi("since", ax, ay), bi("sinceT", ax, ay, 1, 2), un("prev", ax), un("rise", ay)]
    U = (F[::4] if quick else F) + pof + past
    r = mc.rtamt_mc("C16_extend", U, [mc.std_cfg(["x", "y"])], maxlen=4 if quick else 5, mode="offline",
                    invariants=["InvC01"], properties=["ActC16"])
    rep.add_mc("every (trace, extension-by-one) pair as a transition, bounded-future + past formulas", r)
    if r["violated"]:
        rep.mc_violation("C16_extend", r)
    # (B) specification -> code: offline behaviours (Parse, Extend*) simulated by TLC, replayed as evaluate() on every prefix
    import behaviours
    bres, behs = behaviours.simulate("C16_sim", U, ["x", "y"], num=(40 if quick else 400), depth=(6 if quick else 8), seed=core.seed(), mode="offline")
    rep.add_mc("TLC simulation of Rtamt.tla (Parse/Extend): offline behaviours generated for replay", bres, exhaustive=False)
    if bres["violated"]:
        rep.mc_violation("C16_sim", bres)
    bcases = behaviours.to_cases(behs, ["x", "y"])
    btr = runner.run_cases(bcases)
    bvs, bgen, bdist = core.validate("C16_sim_replay", btr)
    rep.add_traces(btr, bvs, bgen, bdist, nontrivial_key=lambda c: c["objs"][0]["text"] + str(c["events"][-1].get("w")))
    rep.extra["tlc_behaviours_replayed"] = len(bcases)
    rng = random.Random(core.seed() * 7919 + 16)
    cases = gen_cases(rng, 700 if quick else 15000)
    # ---- dense time: evaluate(w1) vs evaluate(w2), w2 extends w1; values at t with t + h < end of w1 agree
    import c04 as _c04
    dcases = []
    DOPS = [o for o in _c04.DENSE_OPS if o not in UNB_FUT]
    for i in range((700 if quick else 8000) // 2):
        S = rng.choice([1, 2])
        g = Gen(rng, vars_=rng.choice([("x",), ("x", "y")]), S=S, ops=DOPS, ivs=_c04.IVS, bool_atoms=True)
        phi = g.formula(rng.choice([1, 2, 2, 3]))
        if not vars_of(phi):
            continue
        vs = vars_of(phi)
        end1 = rng.choice([3, 5, 8])
        ext = rng.choice([1, 2, 4, 6])
        w1 = {v: gen_signal(rng, rng.choice([2, 3, 4, 5]), t0=0, S=S, end=end1) for v in vs}
        w2 = {}
        for v in vs:
            extra = gen_signal(rng, rng.choice([1, 2, 3]), t0=end1 + 1, S=S, end=end1 + ext, lo=-9, hi=9) if ext > 1 else [[end1 + 1, rng.choice([-9, 9]) * S]]
            w2[v] = w1[v] + extra
        h = horizon(phi)
        objs = [ct_obj(phi, S, vs), ct_obj(phi, S, vs)]
        evs = [ev_parse(1), ev_parse(2), ev_ct("evaluate", w1, 1), ev_ct("evaluate", w2, 2)]
        dcases.append(case(objs, evs, [{"rel": "settled_ct", "x": 1, "y": 2, "h": h}]))
    dtr = runner.run_cases(dcases)
    dvs, dgen, ddist = core.validate("C16_dense", dtr, module="TraceCt")
    rep.add_traces(dtr, dvs, dgen, ddist, nontrivial_key=lambda c: c["objs"][0]["text"] + str(c["events"][-1]["w"]))
    rep.extra["dense_cases"] = len(dcases)
    traces = runner.run_cases(cases)
    vs_, gen, dist = core.validate("C16", traces)
    rep.add_traces(traces, vs_, gen, dist, nontrivial_key=lambda c: c["objs"][0]["text"] + str(c["events"][-1]["w"]))
    return rep.finish("TLC: action property on Extend over all traces/extensions (length<=MaxLen, {-2,1,3}^2); traces: evaluate(w1) and "
                      "evaluate(w2), w2 = w1 + 1..6 extra samples (half of them extreme +-99), compared with each other on the settled "
                      "region t+h<|w1| (independent of the semantics) and each with Sem!Sig; 25% pure-past formulas (h=0)")

if __name__ == "__main__":
    core.main(main)
