"""C17: well-formed use never crashes; unsupported constructs are rejected with RTAMTException, not evaluated."""
import json, random, sys, os
sys.path.insert(0, os.path.join(os.path.dirname(os.path.abspath(__file__)), "..", "harness"))
import core, mc, runner
from astlib import *
from cases import *
import c03 as _c03

ALL_OPS = UN_BOOL + UN_TIMED + BIN_BOOL + ["sinceT", "untilT"]
IVS = [(0, 0), (0, 1), (1, 2), (0, 3), (2, 2), (0, 6)]


def shapes(rng, vs):
    """declared variables (may include unused ones) and the order in which inputs are listed"""
    declared = list(vs)
    if rng.random() < 0.4:
        declared.append("u")                 # declared and supplied, not used by the formula
    order = list(declared)
    rng.shuffle(order)
    extra = rng.random() < 0.25              # supplied but never declared
    return declared, order, extra


def main():
    import astlib
    astlib.AUTO_FUNCS = 0.2       # sqrt exp ln log pow at exact points in a fifth of the generated formulas
    rep = core.Report("C17")
    quick = core.tier() == "quick"
    rng = random.Random(core.seed() * 7919 + 17)
    # (A): the guards of the outcome machine (what each monitor kind supports) against the semantics and the operational models,
    # for every formula of depth <= 2 over the whole operator set: pastification is closed (bounded future -> online fragment),
    # a supported formula always has a value / the operational models return without error
    import densemc
    ax, ay = pred("ge", var("x"), const(2)), pred("lt", var("y"), const(2))
    UNO = ["not", "next", "prev", "once", "hist", "ev", "alw", "rise", "fall", "sprev", "snext"]
    TMO = ["evT", "alwT", "onceT", "histT"]
    BIO = ["and", "or", "implies", "iff", "xor", "since", "until"]
    D1 = [ax, ay] + [un(o, ax) for o in UNO] + [un(o, ax, 1, 2) for o in TMO] + [bi(o, ax, ay) for o in BIO] + [bi(o, ax, ay, 1, 2) for o in ("sinceT", "untilT")] + \
         [pred("ge", bi("sub", var("x"), un("abs", var("y"))), const(0)), pred("le", un("neg", var("x")), const(1))]
    FS = D1 + [un(o, q) for o in UNO for q in D1] + [un(o, q, 0, 1) for o in TMO for q in D1] + [bi(o, q, ay) for o in BIO for q in D1] + \
         [bi(o, ax, q, 1, 2) for o in ("sinceT", "untilT") for q in D1] + [bi(o, q, ax, 0, 1) for o in ("sinceT", "untilT") for q in D1]
    r = densemc.run_support("C17_support", FS)
    rep.add_mc("SupportMC: PastifyClosed, DiscreteTotal, DenseTotal for %d formulas of depth <= 2 over the whole operator set" % len(FS), r)
    if r["violated"]:
        rep.mc_violation("SupportMC", r)
    # (A) + (B): which names are input signals (spec/Inputs.tla) - every sequence of 3 assertions over 5 identifiers keeps every
    # signal a formula reads among the inputs; the behaviours TLC explored are replayed on the four monitors (below)
    import inputsmc
    r = inputsmc.run("C17_inputs", ["x", "y", "o.f", "o.g", "out"], maxa=3, maxr=2, workers=8)
    rep.add_mc("Inputs: ReadImpliesFree, OnlyAssignedNotFree for every sequence of 3 assertions over {x, y, o.f, o.g, out}, <= 2 identifiers per formula", r[0])
    if r[0]["violated"]:
        rep.mc_violation("Inputs", r[0])
    idev = {}
    for dev in ("discardAlways", "scanDict", "noReAdd"):
        rr = inputsmc.run("C17_inputs_dev_" + dev, ["x", "y", "o.f", "o.g", "out"], maxa=3, maxr=2, dev=[dev], workers=4, expect_violation=True)
        idev[dev] = rr[0]["violated"]
    rep.extra["inputs_deviation_on_counterexamples"] = idev
    _, behs = inputsmc.run("C17_inputs_beh", ["x", "o.f", "o.g", "out"], maxa=3, maxr=2, emit=True, workers=1)
    behs = sorted([b for b in behs if inputsmc.interesting(b)], key=lambda b: json.dumps(b, sort_keys=True))
    rngb = random.Random(core.seed() * 7919 + 1717)
    rngb.shuffle(behs)
    ibeh = []
    for b in behs[:(120 if quick else 4000)]:
        for kind in ("dt_off", "dt_on", "ct_off", "ct_on"):
            c_ = inputsmc.to_case(b, kind, rngb)
            if c_:
                ibeh.append(c_)
    rep.extra["inputs_behaviours_replayed"] = {"explored": len(behs), "replayed_cases": len(ibeh)}
    n = 900 if quick else 20000
    dt, ct = [c_ for c_ in ibeh if c_["kind"].startswith("dt")], [c_ for c_ in ibeh if c_["kind"].startswith("ct")]
    # the rejection half, systematically: every construct a monitor kind does not support, with every interval of IVS, at the top
    # of the formula and below a negation, a conjunction and a bounded future operator (seed C17-f: until[0,0] after pastify())
    UNSUP = {"dt_on": ["ev", "alw", "until", "evT", "alwT", "untilT", "next", "snext"], "dt_past": ["ev", "alw", "until"],
             "ct_off": ["prev", "sprev", "next", "snext", "rise", "fall"],
             "ct_on": ["ev", "alw", "until", "evT", "alwT", "untilT", "next", "snext", "prev", "sprev", "rise", "fall"],
             "ct_past": ["ev", "alw", "until", "untilT", "prev", "sprev", "next", "snext", "rise", "fall"]}
    forced, forced_first = [], []
    for kind_, ops_ in sorted(UNSUP.items()):
        for o_ in ops_:
            for (a_, b_) in (IVS if o_.endswith("T") else [(0, 0)]):
                core_ = un(o_, ax, a_, b_) if o_ in TMO else bi(o_, ax, ay, a_, b_) if o_ == "untilT" else bi(o_, ax, ay) if o_ == "until" else un(o_, ax)
                for ctx_ in (lambda q: q, lambda q: un("not", q), lambda q: bi("and", ay, q), lambda q: un("alwT", q, 0, 1)):
                    f_ = ctx_(core_)
                    if kind_ in ("dt_on", "ct_on") and f_["op"] == "alwT" and f_ is not core_:
                        continue                      # (the context itself is unsupported there)
                    (forced_first if (kind_, o_) == ("ct_past", "untilT") else forced).append((kind_, f_))
    rng.shuffle(forced)
    forced = forced_first + forced[:(160 if quick else len(forced))]
    rep.extra["unsupported_constructs_cases"] = len(forced)
    for i in range(n + len(forced)):
        S = rng.choice([1, 1, 2])
        kind = rng.choice(["dt_off", "dt_on", "dt_past", "ct_off", "ct_on", "ct_past"])
        g = Gen(rng, vars_=rng.choice([("x",), ("x", "y")]), S=S, ops=ALL_OPS, ivs=IVS, bool_atoms=kind.startswith("ct"))
        phi = g.formula(rng.choice([0, 1, 1, 2, 2, 3]))
        if i >= n:
            kind, phi = forced[i - n]
            S = 1
        elif rng.random() < 0.5:
            # bias towards the supported fragment of the kind, so that half of the runs are complete executions
            sup = {"dt_off": ALL_OPS,
                   "dt_on": [o for o in ALL_OPS if o not in FUT], "dt_past": [o for o in ALL_OPS if o not in UNB_FUT],
                   "ct_off": [o for o in ALL_OPS if o not in ("prev", "sprev", "next", "snext", "rise", "fall")],
                   "ct_on": [o for o in ALL_OPS if o not in FUT and o not in ("prev", "sprev", "rise", "fall")],
                   "ct_past": [o for o in ALL_OPS if o not in UNB_FUT and o not in ("prev", "sprev", "next", "snext", "rise", "fall", "untilT")]}[kind]
            g.ops = sup
            phi = g.formula(rng.choice([1, 1, 2, 3]))
        if kind.endswith("past") and _c03.past_over_future(phi):
            continue
        if kind.startswith("ct") and not vars_of(phi):
            continue
        if kind.startswith("ct") and any(q["op"] in BIN2 and not vars_of(q) for q in subformulas(phi)):
            continue
        vs = vars_of(phi) or ["x"]
        headless = False
        if rng.random() < 0.06 and "x" in vs:
            # an input signal called `out` and an assertion without a name (which is implicitly called out, too)
            import copy
            phi = copy.deepcopy(phi)
            for q_ in subformulas(phi):
                if q_["op"] == "var" and q_["v"] == "x":
                    q_["v"] = "out"
            vs = vars_of(phi)
            headless = True
        objin = False
        if not headless and rng.random() < 0.1 and "x" in vs:
            # the input x is the field x of an object signal o (o.x >= 1); half of these also write the output to a field of the
            # same object (o.value = ...), a quarter have an earlier assertion that does (o.value = u >= 0; out = ... o.x ...)
            import copy
            phi = copy.deepcopy(phi)
            for q_ in subformulas(phi):
                if q_["op"] == "var" and q_["v"] == "x":
                    q_["v"] = "o.x"
            vs = vars_of(phi)
            objin = True
        declared, order, extra = shapes(rng, vs)
        if kind.startswith("dt"):
            N = rng.choice([1, 1, 2, 3, 5])
            w = gen_trace(rng, declared, N, S)
            fac = {"dt_off": ["StlDiscreteTimeSpecification", "StlDiscreteTimeOfflineSpecification"],
                   "dt_on": ["StlDiscreteTimeSpecification", "StlDiscreteTimeOnlineSpecification"],
                   "dt_past": ["StlDiscreteTimeSpecification", "StlDiscreteTimeOnlineSpecification"]}[kind]
            o = dt_obj(phi, S, declared, factory=rng.choice(fac))
            if headless:
                o["text"] = to_text(phi, S)
            if kind == "dt_off":
                e = ev_evaluate(range(N), w, order=order)
                if extra:
                    e["extra"] = {"zz": [1.0] * N}
                evs = [ev_parse(), e]
            else:
                evs = [ev_parse()] + ([ev_pastify()] if kind == "dt_past" else [])
                if rng.random() < 0.15:
                    evs.append(ev_reset())
                for t in range(N):
                    e = ev_update(t, sample_at(w, t), order=order)
                    if extra:
                        e["extra"] = {"zz": 1.0}; e["extra_at"] = rng.choice([0, 0, 1, 9])
                    evs.append(e)
            if not headless and rng.random() < (0.5 if objin else 0.06):
                o["out_field"] = True
            elif objin and len(declared) > 1 and rng.random() < 0.5:
                o["subs"] = ["o.value = (%s >= 0);" % [v_ for v_ in declared if v_ != "o.x"][0]]
            dt.append(case([o], evs, kind=kind, skip=["evaluate.viol", "update.viol"]))
        else:
            end = rng.choice([1, 2, 4, 6])
            w = {v: gen_signal(rng, rng.choice([1, 2, 3, 4]), t0=0, S=S, end=end) for v in declared}
            fac = {"ct_off": ["StlDenseTimeSpecification", "StlDenseTimeOfflineSpecification"],
                   "ct_on": ["StlDenseTimeSpecification", "StlDenseTimeOnlineSpecification"],
                   "ct_past": ["StlDenseTimeSpecification", "StlDenseTimeOnlineSpecification"]}[kind]
            o = ct_obj(phi, S, declared, factory=rng.choice(fac))
            if headless:
                o["text"] = to_text(phi, S)
            if kind == "ct_off":
                e = ev_ct("evaluate", w, order=order)
                if extra:
                    e["extra"] = {"zz": [[0, 1.0], [end, 2.0]]}; e["extra_at"] = rng.choice([0, 0, 1, 9])
                evs = [ev_parse(), e]
                if rng.random() < 0.3:
                    evs.append(dict(e))             # a second evaluate() of the same object with the same arguments
            else:
                evs = [ev_parse()] + ([ev_pastify()] if kind == "ct_past" else [])
                e = ev_ct("update", w, order=order)         # single update: outside the chunking findings
                if extra:
                    e["extra"] = {"zz": [[0, 1.0], [end, 2.0]]}; e["extra_at"] = rng.choice([0, 0, 1, 9])
                evs.append(e)
            if objin and len(declared) > 1 and rng.random() < 0.25:
                o["subs"] = ["o.value = (%s >= 0);" % [v_ for v_ in declared if v_ != "o.x"][0]]
            elif not headless and rng.random() < (0.6 if objin else 0.06):
                o["out_field"] = True
                if kind != "ct_off" and len(vs) >= 1:
                    # two updates (the signals cut in two) - the output object must survive the first one
                    import c05 as _c05x
                    sc_ = {v: [(0, 1), (1, len(w[v]))] if len(w[v]) > 1 else [(0, 1)] for v in w}
                    evs = [e_ for e_ in evs if e_["a"] != "update"] + _c05x.schedule_events(w, sc_, 1)
            ct.append(case([o], evs, kind=kind))
    # dense-time online, several update() calls, every arithmetic operator with a constant on either side (a constant delivers
    # its signal once, so from the second update on that operand's batch is empty) and between two signals fed by lagging batches
    import c05 as _c05
    for i in range(n // 6):
        S = 2
        opn = rng.choice(["add", "sub", "mul", "div", "div", "div"])
        kc = rng.choice([1, 2]) * S                                   # divisors 1, 2 (and their negations) and even samples: exact at scale 2
        K = (lambda: un("neg", const(kc))) if rng.random() < 0.3 else (lambda: const(kc))
        shape = rng.random()
        if shape < 0.4:
            t_ = bi(opn, var("x"), K())
        elif shape < 0.7:
            t_ = bi(opn, K(), var("x")) if opn != "div" else bi(opn, const(4 * S), un("abs", bi("add", un("abs", var("x")), const(S))))
        else:
            t_ = bi(opn, var("x"), var("y")) if opn != "div" else bi(opn, var("x"), bi("add", un("abs", var("y")), const(S)))
        phi = pred(rng.choice(["ge", "le", "eq"]), t_, const(rng.choice([0, 1]) * S))
        if rng.random() < 0.4:
            phi = rng.choice([un("once", phi), un("onceT", phi, 0, 1), bi("and", phi, pred("ge", var("x"), const(0)))])
        vs = vars_of(phi)
        end = rng.choice([3, 4, 6])
        w = {v: [[t, 2 * rng.randint(-2, 2) * (S // 2 or 1)] for t in sorted(set([0, end] + rng.sample(range(1, end), rng.choice([1, 2]))))] for v in vs}
        sc = {v: rng.choice(_c05.splits(len(w[v]))) for v in vs}
        o = ct_obj(phi, S, vs, factory=rng.choice(["StlDenseTimeSpecification", "StlDenseTimeOnlineSpecification"]))
        ct.append(case([o], [ev_parse()] + _c05.schedule_events(w, sc, 1), kind="ct_on"))
    rep_cases = 0
    for nm, cs, mod in (("C17_dt", dt, "TraceDt"), ("C17_ct", ct, "TraceCt")):
        tr = runner.run_cases(cs)
        vs_, gen, dist = core.validate(nm, tr, module=mod)
        rep.add_traces(tr, vs_, gen, dist, nontrivial_key=lambda c: c["kind"] + c["objs"][0]["text"] + str(c["objs"][0]["vars"]) + str(len(c["events"])))
    rep.extra["cases_by_kind"] = {k: sum(1 for c in dt + ct if c["kind"] == k) for k in ("dt_off", "dt_on", "dt_past", "ct_off", "ct_on", "ct_past")}
    return rep.finish("TLC: SupportMC - the support guards of the outcome machine are consistent with the semantics and the operational "
                      "models (pastification closed, supported formulas total) on all formulas of depth <= 2; "
                      "traces: random formulas over the whole operator set (so that about half are unsupported by the monitor kind at hand) on "
                      "the six monitor kinds (discrete/dense x offline/online/online-after-pastify), with one-sample traces, variables that are "
                      "declared and supplied but unused, supplied but undeclared, and inputs listed in random order; the specification's outcome "
                      "machine (ok / RTAMTException per public call, from Rtamt!CanUpdate, Past!Pastifiable, Dense!DenseOK, TraceCt!OnlineCtOK) is "
                      "compared with the observed outcome class of every call - any other exception class, or a value from an unsupported "
                      "construct, is a violation")

if __name__ == "__main__":
    core.main(main)
