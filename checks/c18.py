"""C18: temporal dualities and expansion laws hold in every monitor."""
import random, sys, os
sys.path.insert(0, os.path.join(os.path.dirname(os.path.abspath(__file__)), "..", "harness"))
import core, semmc, runner
from astlib import *
from cases import *


def laws(p, q, a, b, c, d):
    """list of (name, lhs, rhs, kind) ; kind: 'past' | 'future' | 'bool' | 'unbfuture'"""
    N = lambda f: un("not", f)
    L = [
        ("dual_ev", N(un("evT", p, a, b)), un("alwT", N(p), a, b), "future"),
        ("dual_once", N(un("onceT", p, a, b)), un("histT", N(p), a, b), "past"),
        ("dual_once_unb", N(un("once", p)), un("hist", N(p)), "past"),
        ("dual_ev_unb", N(un("ev", p)), un("alw", N(p)), "unbfuture"),
        ("implies", bi("implies", p, q), bi("or", N(p), q), "bool"),
        ("ev_ev", un("evT", un("evT", p, c, d), a, b), un("evT", p, a + c, b + d), "future"),
        ("once_once", un("onceT", un("onceT", p, c, d), a, b), un("onceT", p, a + c, b + d), "past"),
        ("since_exp", bi("since", p, q), bi("or", q, bi("and", p, un("sprev", bi("since", p, q)))), "past"),
        ("until_exp", bi("until", p, q), bi("or", q, bi("and", p, un("snext", bi("until", p, q)))), "unbfuture"),
    ]
    return L


def operands(rng, S):
    g = Gen(rng, vars_=("x", "y"), S=S, ops=["not", "and", "or", "prev", "once", "onceT", "histT", "since", "rise"], ivs=[(0, 1), (1, 2), (0, 0)])
    return g.formula(rng.choice([0, 0, 1, 1, 2])), g.formula(rng.choice([0, 0, 1]))


def main():
    import astlib
    astlib.AUTO_FUNCS = 0.2       # sqrt exp ln log pow at exact points in a fifth of the generated formulas
    rep = core.Report("C18")
    quick = core.tier() == "quick"
    ax, ay = pred("ge", var("x"), const(0)), pred("le", var("y"), const(1))
    ops1 = [ax, ay, un("not", ax), un("prev", ay), un("once", ax), bi("and", ax, ay), un("histT", ay, 0, 1)]
    pairs = []
    bounds = [(0, 0, 0, 1), (0, 1, 1, 2), (1, 2, 0, 1), (2, 2, 1, 1), (0, 3, 0, 0), (1, 3, 2, 3)]
    for p in (ops1[:4] if quick else ops1):
        for q in (ops1[:2] if quick else ops1[:4]):
            for (a, b, c, d) in (bounds[:4] if quick else bounds):
                for (nm, l, r, k) in laws(p, q, a, b, c, d):
                    pairs.append((l, r))
    uniq = {}
    for l, r in pairs:
        uniq[str(l) + str(r)] = (l, r)
    pairs = list(uniq.values())
    r = semmc.run("C18_laws", pairs=pairs, maxlen=4 if quick else 5, invariants=("PairsEq", "PairsEqDense"))
    rep.add_mc("%d law instances (operands depth<=1, bounds 0..3) x all traces over {-2,1,3}^2, for Sem!Sig and for Dense!SigC" % len(pairs), r)
    if r["violated"]:
        rep.mc_violation("C18_laws", r)

    rng = random.Random(core.seed() * 7919 + 18)
    n = 800 if quick else 12000
    cases = []
    for i in range(n):
        S = rng.choice([1, 1, 2])
        p, q = operands(rng, S)
        a = rng.choice([0, 0, 1, 2]); b = a + rng.choice([0, 1, 2, 3]); c = rng.choice([0, 1, 2]); d = c + rng.choice([0, 1, 2])
        nm, l, r_, kind = rng.choice(laws(p, q, a, b, c, d))
        ctx_future = False
        if rng.random() < 0.35 and kind != "unbfuture":
            # both sides inside the same context: a sibling with a longer horizon, an enclosing Boolean / temporal operator
            at = pred(rng.choice(["ge", "le"]), var(rng.choice(["x", "y"])), const(rng.choice([0, 1]) * S))
            kctx = rng.choice(["and_ev", "or_alw", "implies_ev", "not", "and_once", "ev", "next"] if kind != "past" else
                              ["and_ev", "or_alw", "implies_ev", "not", "and_once", "once", "hist", "histT", "since"])
            k_ = rng.choice([1, 2, 3])
            C = {"and_ev": lambda f: bi("and", f, un("evT", at, 0, k_)), "or_alw": lambda f: bi("or", un("alwT", at, 1, k_ + 1), f),
                 "implies_ev": lambda f: bi("implies", f, un("evT", at, k_, k_ + 1)), "not": lambda f: un("not", f),
                 "and_once": lambda f: bi("and", un("onceT", at, 0, k_), f), "ev": lambda f: un("evT", f, 0, k_), "next": lambda f: un("next", f),
                 "once": lambda f: un("once", f), "hist": lambda f: un("hist", f), "histT": lambda f: un("histT", f, 0, k_),
                 "since": lambda f: bi("since", at, f)}[kctx]
            l, r_ = C(l), C(r_)
            ctx_future = kctx in ("and_ev", "or_alw", "implies_ev", "ev", "next")
        vs = sorted(set(vars_of(l) + vars_of(r_))) or ["x"]
        N = rng.choice([1, 2, 3, 4, 6, 8, 12])
        online = kind != "unbfuture" and rng.random() < 0.5
        if online:
            h = horizon(l)
            assert h == horizon(r_)
            N += h
            w = gen_trace(rng, vs, N, S)
            past = [ev_pastify] if kind == "future" or ctx_future or rng.random() < 0.2 else []
            evs = []
            for o in (1, 2):
                evs += [ev_parse(o)] + [f(o) for f in past]
            k0 = rng.randrange(N) if rng.random() < 0.2 else None      # the laws also hold on a monitor that was reset (seed C18-d)
            for t in range(N):
                if t == k0:
                    evs += [ev_reset(1), ev_reset(2)]
                evs += [ev_update(t, sample_at(w, t), 1), ev_update(t, sample_at(w, t), 2)]
            fac = rng.choice(["StlDiscreteTimeSpecification", "StlDiscreteTimeOnlineSpecification"])
            rels = [{"rel": "same_on_from", "x": 1, "y": 2, "k": h + 1}] if k0 is None else []
        else:
            w = gen_trace(rng, vs, N, S)
            evs = [ev_parse(1), ev_parse(2), ev_evaluate(range(N), w, 1), ev_evaluate(range(N), w, 2)]
            fac = rng.choice(["StlDiscreteTimeSpecification", "StlDiscreteTimeOfflineSpecification"])
            rels = [{"rel": "same_off", "x": 1, "y": 2}]
        cases.append(case([dt_obj(l, S, vs, factory=fac), dt_obj(r_, S, vs, factory=fac)], evs, rels, law=nm, skip=["evaluate.viol"]))
    # ---- dense time: both sides on the same dense monitor (offline; online for past laws: one update or random partitions into batches)
    dcases = []
    for i in range(n // 2):
        S = rng.choice([1, 2])
        g = Gen(rng, vars_=("x", "y"), S=S, ops=["not", "and", "or", "once", "hist", "onceT", "histT", "since"], ivs=[(0, 1), (1, 2), (0, 0)], bool_atoms=True)
        p_, q_ = g.formula(rng.choice([0, 0, 1, 1, 2])), g.formula(rng.choice([0, 0, 1]))
        a = rng.choice([0, 0, 1, 2]); b = a + rng.choice([0, 1, 2, 3]); c = rng.choice([0, 1, 2]); d = c + rng.choice([0, 1, 2])
        cand = [l_ for l_ in laws(p_, q_, a, b, c, d) if l_[0] not in ("since_exp", "until_exp")]
        nm, l, r_, kind = rng.choice(cand)
        if rng.random() < 0.3:      # the same context around both sides (the visitor's scratch state must not leak between nested operators)
            at = pred(rng.choice(["ge", "le"]), var(rng.choice(["x", "y"])), const(rng.choice([0, 1]) * S))
            C = rng.choice([lambda f: un("once", f), lambda f: un("hist", f), lambda f: bi("and", un("once", at), f), lambda f: un("not", f),
                            lambda f: bi("since", at, f), lambda f: un("histT", f, 0, 1)] +
                           ([] if kind == "past" else [lambda f: un("alw", f), lambda f: un("ev", f), lambda f: bi("until", at, f)]))
            l, r_ = C(l), C(r_)
            if kind == "past" and (ops_of(l) & FUT):
                kind = "future"
        vs = sorted(set(vars_of(l) + vars_of(r_)))
        if not vs:
            continue
        end = rng.choice([3, 5, 8])
        w = {v: gen_signal(rng, rng.choice([2, 3, 4, 5]), t0=0, S=S, end=end) for v in vs}
        online = kind == "past" and rng.random() < 0.4
        fac = "StlDenseTimeSpecification"
        act = "update" if online else "evaluate"
        evs = [ev_parse(1), ev_parse(2), ev_ct(act, w, 1), ev_ct(act, w, 2)]
        if online and rng.random() < 0.6:
            # the two sides fed by (different) partitions of the signals into update() batches
            import c05 as _c05
            evs = [ev_parse(1), ev_parse(2)]
            for k_ in (1, 2):
                evs += _c05.schedule_events(w, {v: rng.choice(_c05.splits(len(w[v]))) for v in vs}, k_)
        dcases.append(case([ct_obj(l, S, vs, factory=fac), ct_obj(r_, S, vs, factory=fac)], evs, [{"rel": "same_fn", "x": 1, "y": 2}], law=nm))
    dtr = runner.run_cases(dcases)
    dvs, dgen, ddist = core.validate("C18_dense", dtr, module="TraceCt")
    rep.add_traces(dtr, dvs, dgen, ddist, nontrivial_key=lambda c: c["objs"][0]["text"] + c["objs"][1]["text"] + str(c["events"][-1]["w"]))
    rep.extra["dense_law_instances"] = {nm: sum(1 for c in dcases if c["law"] == nm) for nm in sorted({c["law"] for c in dcases})}
    traces = runner.run_cases(cases)
    vs_, gen, dist = core.validate("C18", traces)
    rep.add_traces(traces, vs_, gen, dist, nontrivial_key=lambda c: c["objs"][0]["text"] + c["objs"][1]["text"] + str(c["events"][-1].get("w", c["events"][-1].get("s"))))
    rep.extra["law_instances_traced"] = {nm: sum(1 for c in cases if c["law"] == nm) for nm in sorted({c["law"] for c in cases})}
    return rep.finish("TLC: each law as an invariant Sig(lhs)=Sig(rhs) on every trace (also validates the specification's own semantics); "
                      "traces: both sides evaluated by the same real monitor (offline evaluate, online update, online after pastify for the "
                      "bounded-future laws) on the same data and compared with each other pointwise - independent of Sem!Sig - and each with the model")

if __name__ == "__main__":
    core.main(main)
