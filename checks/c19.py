"""C19: dense-time and discrete-time interpretations agree on sampled step signals."""
import random, sys, os
sys.path.insert(0, os.path.join(os.path.dirname(os.path.abspath(__file__)), "..", "harness"))
import core, semmc, runner
from astlib import *
from cases import *

FRAG = ["not", "and", "or", "implies", "iff", "xor", "once", "hist", "onceT", "histT", "evT", "alwT"]
IVS = [(0, 0), (0, 1), (1, 2), (2, 2), (0, 3), (1, 3)]


def scale_bounds(p, P):
    q = dict(p)
    for k in ("l", "r"):
        if k in q:
            q[k] = scale_bounds(q[k], P)
    if q["op"] in TIMED:
        q["a"] = p["a"] * P; q["b"] = p["b"] * P
    return q


def main():
    import astlib
    astlib.AUTO_FUNCS = 0.2       # sqrt exp ln log pow at exact points in a fifth of the generated formulas
    rep = core.Report("C19")
    quick = core.tier() == "quick"
    ax, ay = pred("ge", var("x"), const(0)), pred("lt", var("y"), const(1))
    forms = [ax, pred("eq", bi("sub", var("x"), var("y")), const(0)), bi("and", ax, ay), bi("xor", ax, ay), un("once", ax), un("hist", ay)]
    for iv in IVS:
        for op in ("onceT", "histT", "evT", "alwT"):
            forms.append(un(op, ax, *iv))
    forms += [un("evT", un("alwT", ay, 0, 1), 1, 2), un("onceT", un("evT", ax, 0, 2), 1, 1), un("not", un("alwT", bi("or", ax, un("histT", ay, 0, 1)), 0, 2)),
              bi("implies", un("once", ax), un("evT", ay, 1, 3)), un("hist", un("alwT", ax, 0, 1))]
    r = semmc.run("C19_thm", forms=forms, maxlen=4 if quick else 6, invariants=["DenseEqDiscrete"])
    rep.add_mc("theorem SigC = Sig on aligned step signals for %d formulas of the fragment x all traces" % len(forms), r)
    if r["violated"]:
        rep.mc_violation("C19_thm", r)
    rng = random.Random(core.seed() * 7919 + 19)
    n = 700 if quick else 15000
    cases = []
    for i in range(n):
        S = rng.choice([1, 1, 2])
        P = rng.choice([1, 1, 2, 3])
        g = Gen(rng, vars_=rng.choice([("x",), ("x", "y")]), S=S, ops=FRAG, ivs=IVS, bool_atoms=True,
                arith=("add", "sub", "abs", "neg") + (("mul",) if S == 1 else ()))
        phi = g.formula(rng.choice([1, 2, 2, 3]))
        if not vars_of(phi):
            continue
        vs = vars_of(phi)
        N = rng.choice([2, 3, 4, 6, 8])
        wd = gen_trace(rng, vs, N, S)
        phiP = scale_bounds(phi, P)                                   # bounds as written: multiples of the period
        dense = ct_obj(phiP, S, vs, factory=rng.choice(["StlDenseTimeSpecification", "StlDenseTimeOfflineSpecification"]))
        disc = ct_obj(phiP, S, vs, factory=rng.choice(["StlDiscreteTimeSpecification", "StlDiscreteTimeOfflineSpecification"]))
        disc["dense"] = False
        disc["set_period"] = [P, "s", 0.1]
        skip = []
        if (ops_of(phiP) & TIMED) and rng.random() < 0.3:
            # the same durations written with unit suffixes (default unit s, period P s): both monitors read the same text
            import c08 as _c08
            written, _st = _c08.write_ast(rng, phiP, 10 ** 9, "s")
            text = "out = " + to_text(written, S)
            dense["text"] = text; dense["written"] = written; dense["units"] = {"def": "s", "pnum": 1, "pden": 1, "punit": "s"}; dense["unit"] = "s"
            disc["text"] = text; disc["unit"] = "s"
            skip = ["parse.ast"]           # (the read-back of the discrete object is in samples; C08 checks it)
        wc = {v: [[k * P, wd[v][k]] for k in range(N)] for v in vs}
        evs = [ev_parse(1), ev_parse(2), ev_ct("evaluate", wc, 1),
               {"o": 2, "a": "dt_evaluate", "ts": [k * P for k in range(N)], "w": wd}]
        cases.append(case([dense, disc], evs, [{"rel": "sampled_eq", "x": 1, "y": 2, "h": horizon(phi)}], P=P, skip=skip))
    traces = runner.run_cases(cases)
    vs_, gen, dist = core.validate("C19", traces, module="TraceCt")
    rep.add_traces(traces, vs_, gen, dist, nontrivial_key=lambda c: c["objs"][0]["text"] + str(c["events"][2]["w"]))
    rep.extra["periods"] = {str(P): sum(1 for c in cases if c["P"] == P) for P in (1, 2, 3)}
    return rep.finish("TLC: theorem DenseEqDiscrete (Dense!SigC = Sem!Sig at the sampling instants while k + horizon < |w|) on all short "
                      "traces; traces: the same grid-aligned data (period 1, 2 or 3, bounds multiples of the period) evaluated by the real "
                      "dense-time and the real discrete-time offline monitors; the dense result sampled at k*P is compared with the discrete "
                      "value at k for k + horizon < N (independent of the semantics) and the dense result additionally with Dense!SigC")

if __name__ == "__main__":
    core.main(main)
