"""C20: the explanation of a violation is a sufficient cause."""
import random, sys, os
sys.path.insert(0, os.path.join(os.path.dirname(os.path.abspath(__file__)), "..", "harness"))
import core, runner
from astlib import *
from cases import *

OPS = ["not", "and", "or", "implies", "iff", "xor", "next", "prev", "once", "hist", "ev", "alw", "onceT", "histT", "evT", "alwT", "rise", "fall"]
IVS = [(0, 0), (0, 1), (1, 2), (0, 2), (1, 1), (2, 3)]


def main():
    import astlib
    astlib.AUTO_FUNCS = 0.2       # sqrt exp ln log pow at exact points in a fifth of the generated formulas
    rep = core.Report("C20")
    quick = core.tier() == "quick"
    rng = random.Random(core.seed() * 7919 + 20)
    # (A): the operational model of the explainer (Explain.tla, one clause per explain_* function) on every formula of depth <= 2
    # (+ a depth-3 family in which a parent hands a non-contiguous set of positions to a bounded operator) x every trace over
    # values below / at / above the threshold: the reported positions are a sufficient cause; nothing reported when satisfied
    import explmc
    ax, ay, bx = pred("ge", var("x"), const(2)), pred("lt", var("y"), const(2)), pred("le", var("x"), const(2))
    UN = ["not", "next", "prev", "once", "hist", "ev", "alw", "rise", "fall", "sprev", "snext"]
    TM = ["evT", "alwT", "onceT", "histT"]
    BB = ["and", "or", "implies", "iff", "xor"]
    D1 = [ax, ay, bx] + [un(o, f) for o in UN for f in (ax, ay)] + [un(o, f, a, b) for o in TM for f in (ax, ay) for a, b in ((0, 1), (1, 2), (1, 1), (0, 2))] + \
         [bi(o, ax, ay) for o in BB] + [bi(o, ax, bx) for o in BB]
    FU = D1 + [un(o, f) for o in UN for f in D1] + [un(o, f, a, b) for o in TM for f in D1 for a, b in ((0, 1), (1, 2))] + \
         [bi(o, f, ay) for o in BB for f in D1] + [bi("implies", bx, f) for f in D1]
    D3 = [un(o1, bi(o2, ax, un(o3, ay, a, b))) for o1 in ("alw", "hist", "ev", "once") for o2 in BB for o3 in TM for a, b in ((0, 1), (1, 1))]
    X_ = var("x")
    DP = [pred(c_, t_, const(2)) for c_ in ("ge", "le") for t_ in
          [un(o, X_) for o in ("alw", "ev", "once", "hist", "prev", "next", "rise", "fall")] + [un(o, X_, a, b) for o in TM for a, b in ((0, 1), (1, 2))] +
          [bi("and", X_, var("y")), bi("or", X_, var("y")), un("abs", un("alw", X_)), bi("sub", un("onceT", X_, 0, 1), un("prev", X_))]]
    DP = DP + [un("not", f) for f in DP[:12]] + [un("alwT", f, 0, 1) for f in DP[:12]]
    # unary minus in verdict position: -(p and q) is violated where (p and q) holds
    NG = [un("neg", f) for f in [bi("and", ax, ay), bi("or", ax, ay), un("alw", ax), un("alwT", ax, 0, 1), un("evT", ay, 0, 1), un("once", ax), un("not", bi("and", ax, ay))]]
    NG = NG + [un("alw", NG[0]), un("not", NG[1]), un("evT", NG[0], 0, 1), bi("or", NG[0], bx), bi("implies", ax, NG[1])]
    DP = DP + NG
    if quick:
        FU = [f for i, f in enumerate(FU) if i % 3 == core.seed() % 3]
    r = explmc.run("C20_explain", FU + D3 + DP, maxn=3, workers=10)
    rep.add_mc("ExplainMC: Explain!Explanation is a sufficient cause for %d formulas x all traces of length <= 3 over {1,2,3}" % len(FU + D3 + DP), r)
    if r["violated"]:
        rep.mc_violation("ExplainMC", r)
    if not quick:
        one = [f for f in FU + D3 if vars_of(f) == ["x"]]      # (two variables at length 4: 6 561 x 6 561 alternatives per formula)
        r = explmc.run("C20_explain4", one, maxn=5, workers=12)
        rep.add_mc("ExplainMC: %d one-variable formulas of depth <= 2 x all traces of length <= 5" % len(one), r)
        if r["violated"]:
            rep.mc_violation("ExplainMC4", r)
    devs = {}
    for dev, fs in (("impliesPolarity", [bi("implies", un("alw", ax), ay), bi("implies", un("evT", ax, 0, 1), ay)]), ("riseNoPrev", [un("next", un("rise", bx)), un("fall", ax)]),
                    ("firstInterval", D3), ("predicateKeepsPolarity", DP[:-len(NG)]), ("negPassesPolarity", NG),
                    ("iffKeepsPolarity", [bi("iff", bi("and", ax, bx), ay), bi("xor", bi("or", ax, ay), bx), un("not", bi("xor", un("alw", ax), ay))])):
        rr = explmc.run("C20_explain_dev_" + dev, fs, maxn=3, dev=[dev], workers=4, expect_violation=True)
        devs[dev] = rr["violated"]
    rep.extra["deviation_on_counterexamples"] = devs
    n = 1500 if quick else 12000
    cases = []
    for i in range(n):
        atthr = False
        vs = list(rng.choice([("x",), ("x", "y")]))
        thr = {v: rng.choice([0, 1, 2]) for v in vs}
        def atom():
            v = rng.choice(vs)
            return pred(rng.choice(["ge", "gt", "le", "lt"]), var(v), const(thr[v]))
        g = Gen(rng, vars_=vs, S=1, ops=OPS, ivs=IVS)
        g.atom = atom
        phi = g.formula(rng.choice([1, 2, 2, 3]))
        if rng.random() < 0.35:
            # a shifting operator next to a sibling over another variable, under a Boolean / temporal parent
            sh = un(rng.choice(["next", "prev", "next"]), atom()) if rng.random() < 0.7 else un(rng.choice(["evT", "onceT", "alwT"]), atom(), *rng.choice(IVS))
            sib = atom()
            phi = bi(rng.choice(["or", "or", "and", "implies"]), *((sh, sib) if rng.random() < 0.5 else (sib, sh)))
            if rng.random() < 0.3:
                phi = un("alwT", phi, 0, rng.choice([1, 2]))
        N = rng.choice([1, 2, 3, 3])
        if rng.random() < 0.35:
            # chains of temporal operators over one variable: a parent that hands a multi-sample interval to its operand
            v0 = rng.choice(vs)
            a0 = pred(rng.choice(["ge", "gt", "le", "lt"]), var(v0), const(thr[v0]))
            q = a0
            for _ in range(rng.choice([2, 2, 3])):
                o_ = rng.choice(["evT", "evT", "alwT", "alwT", "onceT", "histT", "next", "prev", "sprev", "not", "ev", "alw"])
                q = un(o_, q, *rng.choice(IVS)) if o_ in UN_TIMED else un(o_, q)
            phi = q if rng.random() < 0.6 else bi("implies", q, pred("ge", var(v0), const(thr[v0] + 5)))
            N = rng.choice([3, 4, 5])
        if rng.random() < 0.12:
            # rise / fall of a polarity-sensitive operand (the operand is explained at t and, with the opposite polarity, at t-1)
            q = bi(rng.choice(["and", "or", "implies"]), atom(), atom()) if rng.random() < 0.7 else un(rng.choice(["alwT", "evT", "onceT"]), atom(), *rng.choice(IVS))
            q = un(rng.choice(["rise", "fall"]), q)
            phi = rng.choice([q, un("not", q), un("evT", q, 0, rng.choice([1, 2, 3])), un("alwT", q, 0, rng.choice([1, 2])), un("next", q),
                              un("alwT", q, 2, 2), un("evT", q, 1, 1)])
            N = rng.choice([2, 3, 4])
            atthr = rng.random() < 0.5        # many samples exactly on the threshold (seed r11 C20-1: fall with an operand of robustness 0)
        if rng.random() < 0.08:
            # a bounded operator that receives a multi-sample interval from its parent, on a trace long enough that the windows
            # are not clipped by the end of the trace (one variable, N up to 7)
            v0 = rng.choice(vs)
            a0 = pred(rng.choice(["ge", "gt", "le", "lt"]), var(v0), const(thr[v0]))
            i1, i2 = rng.choice([(0, 2), (1, 2), (0, 1), (1, 3)]), rng.choice([(0, 1), (1, 2), (0, 2), (1, 1)])
            o1, o2 = rng.choice(["evT", "alwT"]), rng.choice(["evT", "alwT"])
            phi = un(o1, un(o2, a0, *i2), *i1)
            if rng.random() < 0.5:
                phi = un("not", phi)
            N = min(7, i1[1] + i2[1] + rng.choice([1, 2]))
        if rng.random() < 0.1:
            # a comparison whose operand is the value of a temporal / Boolean sub-formula (no polarity below the comparison)
            v0 = rng.choice(vs)
            inner = rng.choice([lambda: un(rng.choice(["alwT", "evT", "onceT", "histT"]), var(v0), *rng.choice(IVS)),
                                lambda: un(rng.choice(["alw", "ev", "once", "hist", "prev", "next", "rise", "fall"]), var(v0)),
                                lambda: bi(rng.choice(["and", "or"]), var(v0), var(rng.choice(vs))),
                                lambda: un("abs", un(rng.choice(["alw", "hist"]), var(v0))),
                                lambda: bi("sub", un("onceT", var(v0), 0, 1), un("prev", var(v0)))])()
            phi = pred(rng.choice(["ge", "le", "gt", "lt"]), inner, const(thr[v0]))
            if rng.random() < 0.4:
                phi = rng.choice([un("not", phi), un("alwT", phi, 0, 1), bi("or", phi, atom()), un("next", phi)])
            N = rng.choice([2, 3, 4])
        if rng.random() < 0.08:
            # unary minus (ln, log at exact points are outside the value lattice) of a Boolean / temporal formula in verdict position
            q = rng.choice([lambda: bi(rng.choice(["and", "or", "implies"]), atom(), atom()),
                            lambda: un(rng.choice(["alwT", "evT", "onceT", "histT"]), atom(), *rng.choice(IVS)),
                            lambda: un(rng.choice(["alw", "ev", "once", "hist", "not"]), atom()),
                            lambda: bi("and", var(rng.choice(vs)), atom())])()
            phi = un("neg", q)
            if rng.random() < 0.5:
                phi = rng.choice([un("not", phi), un("alw", phi), un("evT", phi, 0, 1), bi("or", phi, atom()), un("neg", phi)])
            N = rng.choice([2, 3, 4])
        uniform = False
        samenum = False
        if rng.random() < 0.04:
            # two bounded operators whose bounds are written with the same numbers and different units ([0:2] next to [0:2s], default
            # unit ms, one sample per ms): 2 samples and 2000 samples (seed r11 C20-2: sample counts memoised by the numbers alone)
            v0 = rng.choice(vs)
            mk = lambda d_: pred(rng.choice(["ge", "gt"]), var(v0), const(thr[v0] + d_))
            o1, o2 = rng.choice(["evT", "alwT"]), rng.choice(["evT", "evT", "alwT"])
            l_, r_ = un(o1, mk(0), 0, 2), un(o2, mk(1), 0, 2000)
            l_["unit_"], r_["unit_"] = "", "s"
            phi = bi("or", *((l_, r_) if rng.random() < 0.7 else (r_, l_)))
            N = rng.choice([5, 6])
            uniform = True
            samenum = True
        if rng.random() < 0.06:
            # prev / s_prev (next / s_next) handed an interval that starts at time 0 and spans several samples by its parent
            # (seed C20-d: the interval [0, e] dropped instead of shifted)
            v0 = rng.choice(vs)
            a0 = pred(rng.choice(["ge", "gt", "le", "lt"]), var(v0), const(thr[v0]))
            sh = un(rng.choice(["prev", "sprev", "prev", "sprev", "next", "snext"]), a0)
            par = rng.choice(["evT", "alwT", "ev", "alw", "evT", "alwT"])
            phi = un(par, sh, 0, rng.choice([1, 2, 3])) if par in UN_TIMED else un(par, sh)
            r_ = rng.random()
            if r_ < 0.3:
                phi = un("not", phi)
            elif r_ < 0.5:
                phi = bi("implies", phi, pred("ge", var(v0), const(thr[v0] + 5)))
            N = rng.choice([3, 4, 5])
            uniform = rng.random() < 0.6
        if rng.random() < 0.1:
            # one variable below two bounded operators whose windows are nested (or overlap, or are disjoint), joined by a Boolean
            # connective: the intervals reported for the one name are united (seed r9 C20-2: the union kept the end of the later
            # interval and cut off the enclosing one)
            v0 = rng.choice(vs)
            mk = lambda: pred(rng.choice(["ge", "gt", "le", "lt"]), var(v0), const(thr[v0] + rng.choice([0, 0, 1])))
            (a1, b1), (a2, b2) = rng.choice([((0, 5), (2, 3)), ((0, 4), (1, 2)), ((1, 5), (2, 2)), ((0, 3), (1, 1)), ((0, 2), (3, 5)), ((0, 3), (2, 5))])
            o1, o2 = rng.choice(["evT", "alwT"]), rng.choice(["evT", "alwT"])
            l_, r_ = un(o1, mk(), a1, b1), un(o2, mk(), a2, b2)
            phi = bi(rng.choice(["or", "and", "or", "implies"]), *((l_, r_) if rng.random() < 0.5 else (r_, l_)))
            if rng.random() < 0.25:
                phi = un("not", phi)
            N = rng.choice([6, 7])
            uniform = rng.random() < 0.7
        if samenum and len(vars_of(phi)) == 1:
            pass
        elif samenum:
            samenum = False
        zig = False
        if rng.random() < 0.1:
            # an operator that is explained at several positions over an operand with several separate violating (satisfying)
            # segments: every segment matters (seed C20-h: only the first segment of an unbounded always was reported)
            v0 = rng.choice(vs)
            a0 = pred(rng.choice(["ge", "gt", "le", "lt"]), var(v0), const(thr[v0]))
            inner = rng.choice([lambda: un(rng.choice(["alw", "hist", "ev", "once"]), a0),
                                lambda: un(rng.choice(["alwT", "histT", "evT", "onceT"]), a0, *rng.choice([(0, 1), (1, 2), (0, 2)]))])()
            outer = rng.choice(["ev", "once", "alw", "hist", "evT", "alwT", "or", "and", "next"])
            phi = un(outer, inner, 0, rng.choice([2, 3, 4])) if outer in UN_TIMED else \
                  bi(outer, inner, un("next", un("next", inner))) if outer in ("or", "and") else un(outer, inner)
            if rng.random() < 0.4:
                phi = un("not", phi)
            N = rng.choice([5, 6])
            zig = True
        vs_used = vars_of(phi)
        if len(vs_used) * N > 6:
            N = 3 if len(vs_used) > 1 else N
        # half of the traces stay on one side of the threshold (temporal formulas are then uniformly violated /
        # satisfied and every operand sample matters), the others wander around it
        w = {}
        for v in vs_used:
            side = rng.choice([None, None, -1, 1])
            w[v] = [thr[v] + (rng.choice([-1, 0, 1]) if side is None or rng.random() < 0.15 else side) for _ in range(N)]
            if uniform:
                s0 = rng.choice([-1, 1]) if not samenum else -1
                w[v] = [thr[v] + 2 * s0] * N
            if atthr and not zig and not uniform:
                w[v] = [thr[v] + rng.choice([-1, 0, 0, 0, 1]) for _ in range(N)]
            if zig:      # alternating runs around the threshold
                s0 = rng.choice([-1, 1]); runs = []
                while len(runs) < N:
                    runs += [s0] * rng.choice([1, 1, 2]); s0 = -s0
                w[v] = [thr[v] + r_ * rng.choice([1, 1, 2]) for r_ in runs[:N]]
        o = dt_obj(phi, 1, vs_used, factory="StlDiscreteTimeOfflineSpecification")
        if samenum and all("unit_" in q_ for q_ in subformulas(phi) if q_["op"] in TIMED):
            import copy as _copy
            written = _copy.deepcopy(phi)
            for q_ in subformulas(written):
                if q_["op"] in TIMED:
                    q_.update({"aw": [0, 1], "bw": [2, 1], "au": "", "bu": q_["unit_"], "at": "0", "bt": "2", "fa": "0", "fb": "2"})
            for q_ in list(subformulas(phi)) + list(subformulas(written)):
                q_.pop("unit_", None)
            o = dt_obj(phi, 1, vs_used, factory="StlDiscreteTimeOfflineSpecification", text="out = " + to_text(written, 1), written=written,
                       units={"def": "ms", "pnum": 1, "pden": 1, "punit": "ms"}, unit="ms", set_period=[1, "ms", 0.1])
        elif (ops_of(phi) & TIMED) and rng.random() < 0.25:
            # bounds written with units, a sampling period other than one default unit: the explainer must read the bounds in samples
            import c08 as _c08
            pnum, punit = rng.choice([(500, "ms"), (2, "s"), (250, "us"), (100, "ms"), (1, "s")])
            default = rng.choice(["s", "ms"])
            written, _st = _c08.write_ast(rng, phi, pnum * 10 ** _c08.E[punit], default)
            o = dt_obj(phi, 1, vs_used, factory="StlDiscreteTimeOfflineSpecification", text="out = " + to_text(written, 1), written=written,
                       units={"def": default, "pnum": pnum, "pden": 1, "punit": punit}, unit=default, set_period=[pnum, punit, 0.1])
        if "written" not in o and rng.random() < 0.2:
            # the same specification with named sub-formulas: the verdict is that of the last assertion; a helper assertion that is
            # violated at time 0 while the specification is satisfied must not make explain() report anything
            from modular import decompose
            subs, main_, _cd, _nm = decompose(rng, phi, 1, consts=False)
            if subs:
                if rng.random() < 0.5:
                    o["subs"] = [s_ + ";" for s_ in subs]; o["text"] = "out = " + main_
                else:
                    o["text"] = " ; ".join(subs + ["out = " + main_])
        evs = [ev_parse(), ev_evaluate(range(N), w), {"o": 1, "a": "explain"}]
        o0_ = o
        if rng.random() < (0.6 if "written" in o else 0.25):
            # the same object evaluates and explains a second (and third) trace: nothing of the earlier report may survive
            for _ in range(rng.choice([1, 2])):
                if "written" in o and rng.random() < 0.7:
                    # ... after the sampling period was halved: the bounds now span twice as many samples (seed C20-g)
                    E_ = _c08.E
                    half = o["units"]["pnum"] * 10 ** E_[o["units"]["punit"]] // 2
                    hu = [u for u in ("s", "ms", "us", "ns") if half % 10 ** E_[u] == 0 and half // 10 ** E_[u] <= 100000][0]
                    un_ = {"def": o["units"]["def"], "pnum": half // 10 ** E_[hu], "pden": 1, "punit": hu}
                    evs.append({"o": 1, "a": "config", "set_period": [un_["pnum"], hu, 0.1], "units": un_})
                    o = dict(o, units=un_)         # (a further halving starts from here; the recorded object keeps the first)
                w2 = {v: [thr[v] + rng.choice([-1, 0, 1]) * rng.choice([1, 1, 2]) for _ in range(N)] for v in vs_used}
                if rng.random() < 0.5:
                    w2 = {v: [thr[v] + rng.choice([1, -1])] * N for v in vs_used}     # uniformly on one side: often satisfied
                evs += [ev_evaluate(range(N), w2), {"o": 1, "a": "explain"}]
        cases.append(case([o0_], evs, skip=["evaluate.viol"]))
    traces = runner.run_cases(cases)
    vs_, gen, dist = core.validate("C20", traces, batch=60)
    rep.add_traces(traces, vs_, gen, dist, nontrivial_key=lambda c: c["objs"][0]["text"] + str(c["events"][1]["w"]))
    viol = sum(1 for c in traces if c["events"][1].get("ret") and isinstance(c["events"][1]["ret"][0], int) and c["events"][1]["ret"][0] < 0)
    rep.extra["violated_at_time_0"] = viol
    return rep.finish("TLC: theorem ExplainMC (the operational model of the explainer reports a sufficient cause) on all formulas of depth <= 2 "
                      "x all short traces; every explain() below must report exactly the positions that model computes (binding diagnostic "
                      "operational_model_*); traces: random formulas of the fragment the explainer supports (Boolean, next/prev, bounded and unbounded "
                      "once/historically/eventually/always, rise/fall) with one threshold per variable, traces of length <= 3 with values "
                      "at / just below / just above the threshold; after evaluate() and explain() the reported intervals per variable are "
                      "validated: TLC enumerates every re-assignment of the unreported samples over representatives of all regions cut out "
                      "by the formula's constants and requires Sem!Sat to stay false at time 0; a satisfied formula must report nothing")

if __name__ == "__main__":
    core.main(main)
