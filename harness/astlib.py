"""AST codec shared by every generator and driver.

An AST is a nested dict in exactly the record shape of spec/Sem.tla:
  {"op": "var", "v": "x"} | {"op": "const", "c": <int scaled by S>} |
  {"op": <unary>, "l": ..} | {"op": <binary>, "l": .., "r": ..} |
  {"op": "pred", "cmp": "ge|gt|le|lt|eq|ne", "l": .., "r": ..} |
  timed: additionally "a", "b" (bounds in samples / grid units); optional "au", "bu" unit spellings
         and "aw"/"bw" written literals (text) for the unit-notation property.
Nothing in this module judges a result.
"""
import random
from fractions import Fraction

UN_ARITH = ["abs", "neg", "sqrt", "exp", "ln"]
BIN_ARITH = ["add", "sub", "mul", "div", "pow", "log"]
UN_BOOL = ["not", "rise", "fall", "prev", "sprev", "next", "snext", "once", "hist", "ev", "alw"]
UN_TIMED = ["onceT", "histT", "evT", "alwT"]
BIN_BOOL = ["and", "or", "implies", "iff", "xor", "since", "until"]
SUGAR = ["unless"]
BIN_TIMED = ["sinceT", "untilT", "precT", "unlessT"]
UN1 = set(UN_ARITH + UN_BOOL + UN_TIMED)
BIN2 = set(BIN_ARITH + BIN_BOOL + BIN_TIMED + ["pred", "unless"])
TIMED = set(UN_TIMED + BIN_TIMED)
FUT = {"next", "snext", "ev", "alw", "until", "evT", "alwT", "untilT", "unlessT", "unless"}
UNB_FUT = {"ev", "alw", "until", "unless"}
PAST_STATEFUL = {"prev", "sprev", "once", "hist", "since", "onceT", "histT", "sinceT", "rise", "fall", "precT"}

CMP_TXT = {"ge": ">=", "gt": ">", "le": "<=", "lt": "<", "eq": "==", "ne": "!=="}
KW = {"abs": "abs", "sqrt": "sqrt", "exp": "exp", "ln": "ln", "pow": "pow", "log": "log",
      "not": "not", "rise": "rise", "fall": "fall", "prev": "prev", "sprev": "s_prev",
      "next": "next", "snext": "s_next", "once": "once", "hist": "historically",
      "ev": "eventually", "alw": "always", "onceT": "once", "histT": "historically",
      "evT": "eventually", "alwT": "always", "and": "and", "or": "or", "implies": "implies",
      "iff": "iff", "xor": "xor", "since": "since", "until": "until", "sinceT": "since",
      "untilT": "until", "unlessT": "unless", "unless": "unless", "add": "+", "sub": "-", "mul": "*", "div": "/"}


def var(v): return {"op": "var", "v": v}
def const(c): return {"op": "const", "c": c}
def un(op, l, a=None, b=None):
    d = {"op": op, "l": l}
    if a is not None:
        d["a"] = a; d["b"] = b
    return d
def bi(op, l, r, a=None, b=None):
    d = {"op": op, "l": l, "r": r}
    if a is not None:
        d["a"] = a; d["b"] = b
    return d
def pred(cmp, l, r): return {"op": "pred", "cmp": cmp, "l": l, "r": r}


def children(p):
    if p["op"] in ("var", "const"):
        return []
    if p["op"] in UN1:
        return [p["l"]]
    return [p["l"], p["r"]]


def subformulas(p):
    out = [p]
    for c in children(p):
        out += subformulas(c)
    return out


def ops_of(p):
    return {q["op"] for q in subformulas(p)}


def vars_of(p):
    return sorted({q["v"] for q in subformulas(p) if q["op"] == "var"})


def depth(p):
    cs = children(p)
    return 0 if not cs else 1 + max(depth(c) for c in cs)


def horizon(p):
    op = p["op"]
    if op in ("var", "const"):
        return 0
    if op in ("next", "snext"):
        return horizon(p["l"]) + 1
    if op in ("evT", "alwT"):
        return horizon(p["l"]) + p["b"]
    if op in ("untilT", "unlessT"):
        return max(horizon(p["l"]), horizon(p["r"])) + p["b"]
    return max(horizon(c) for c in children(p))


def num_text(c, S):
    """decimal text of the non-negative scaled integer c at scale S"""
    assert c >= 0
    if c % S == 0:
        return str(c // S)
    f = Fraction(c, S)
    # S in {1,2,4,...}: finite decimal
    s = "%.6f" % float(f)
    s = s.rstrip("0")
    return s


def bound_text(p, which):
    w = p.get(which + "t")            # literal text as written (at / bt), if the case spells it out
    if w is None:
        w = str(p[which])
    u = p.get(which + "u", "")
    return w + (" " + u if u else "")


def interval_text(p, sep=","):
    return "[" + bound_text(p, "a") + sep + bound_text(p, "b") + "]"


def to_text(p, S=1):
    """fully parenthesised concrete syntax; every token separated by blanks"""
    op = p["op"]
    if op == "var":
        return p["v"]
    if op == "const":
        if p["c"] < 0:
            raise ValueError("negative literal: use neg(const)")
        return num_text(p["c"], S)
    if op == "neg":
        return "- ( " + to_text(p["l"], S) + " )"
    if op in ("abs", "sqrt", "exp", "ln", "rise", "fall"):
        return KW[op] + " ( " + to_text(p["l"], S) + " )"
    if op in ("pow", "log"):
        return KW[op] + " ( " + to_text(p["l"], S) + " , " + to_text(p["r"], S) + " )"
    if op in ("add", "sub", "mul", "div"):
        return "( " + to_text(p["l"], S) + " ) " + KW[op] + " ( " + to_text(p["r"], S) + " )"
    if op == "pred":
        return "( " + to_text(p["l"], S) + " ) " + CMP_TXT[p["cmp"]] + " ( " + to_text(p["r"], S) + " )"
    if op in ("not", "prev", "sprev", "next", "snext", "once", "hist", "ev", "alw"):
        return KW[op] + " ( " + to_text(p["l"], S) + " )"
    if op in UN_TIMED:
        return KW[op] + " " + interval_text(p) + " ( " + to_text(p["l"], S) + " )"
    if op in ("and", "or", "implies", "iff", "xor", "since", "until", "unless"):
        return "( " + to_text(p["l"], S) + " ) " + KW[op] + " ( " + to_text(p["r"], S) + " )"
    if op in ("sinceT", "untilT", "unlessT"):
        return "( " + to_text(p["l"], S) + " ) " + KW[op] + " " + interval_text(p) + " ( " + to_text(p["r"], S) + " )"
    raise ValueError("cannot print " + op)


# ---------------------------------------------------------------------------------------------
# read-back of the real rtamt AST into the same shape

_CLASS_OP = {
    "Abs": "abs", "Negate": "neg", "Sqrt": "sqrt", "Exp": "exp", "Ln": "ln",
    "Addition": "add", "Subtraction": "sub", "Multiplication": "mul", "Division": "div",
    "Pow": "pow", "Log": "log", "Neg": "not", "Rise": "rise", "Fall": "fall",
    "Previous": "prev", "StrongPrevious": "sprev", "Next": "next", "StrongNext": "snext",
    "Once": "once", "Historically": "hist", "Eventually": "ev", "Always": "alw",
    "TimedOnce": "onceT", "TimedHistorically": "histT", "TimedEventually": "evT", "TimedAlways": "alwT",
    "Conjunction": "and", "Disjunction": "or", "Implies": "implies", "Iff": "iff", "Xor": "xor",
    "Since": "since", "Until": "until", "TimedSince": "sinceT", "TimedUntil": "untilT",
    "TimedPrecedes": "precT",
}
_CMP_OP = {"GEQ": "ge", "GREATER": "gt", "LEQ": "le", "LESS": "lt", "EQUAL": "eq", "EQ": "eq", "NEQ": "ne"}


def scaled(val, S):
    """scaled integer of a Python number, or a string sentinel when it is not representable"""
    try:
        if val == float("inf"):
            return 100000000
        if val == -float("inf"):
            return -100000000
        if val != val:
            return "nan"
        x = val * S
        r = round(x)
        if x == r and abs(r) < 10000000:
            return int(r)
        return "frac:" + repr(val)
    except Exception:
        return "bad:" + type(val).__name__


def readback(node, S=1, samples=None, full=False):
    """rtamt node -> dict.  Bounds are reported as written (numerator/denominator + unit);
    `samples`, if given, is a function (node) -> (a, b) used to attach the implementation's own
    normalisation."""
    cn = node.__class__.__name__
    if cn == "Variable":
        d = {"op": "var", "v": node.var}
        if node.field:
            d["v"] = node.var + "." + node.field
        return d
    if cn == "Constant":
        return {"op": "const", "c": scaled(node.val, S)}
    if cn == "Predicate":
        return {"op": "pred", "cmp": _CMP_OP.get(node.operator.name, str(node.operator)),
                "l": readback(node.children[0], S, full=full), "r": readback(node.children[1], S, full=full)}
    op = _CLASS_OP.get(cn)
    if op is None:
        return {"op": "unknown:" + cn}
    d = {"op": op, "l": readback(node.children[0], S, full=full)}
    if op in BIN2:
        d["r"] = readback(node.children[1], S, full=full)
    if op in TIMED and full:
        for k, v, u in (("a", node.begin, node.begin_unit), ("b", node.end, node.end_unit)):
            f = Fraction(v)
            ok = abs(f.numerator) < 10 ** 8 and f.denominator < 10 ** 8
            d[k + "w"] = [int(f.numerator), int(f.denominator)] if ok else [-1, 1]
            d[k + "u"] = u if u in ("s", "ms", "us", "ns", "") else "?" + str(u)
    elif op in TIMED:
        for k, v, u in (("a", node.begin, node.begin_unit), ("b", node.end, node.end_unit)):
            f = Fraction(v)
            if f.denominator == 1 and abs(f.numerator) < 10 ** 8:
                d[k] = int(f.numerator)
            else:
                d[k] = "frac:%s" % f
            if u:
                d[k + "u"] = u
    return d


# ---------------------------------------------------------------------------------------------
# generators

DEFAULT_IVS = [(0, 0), (0, 1), (1, 2), (2, 2), (0, 3), (1, 1), (0, 2), (3, 5), (0, 7)]


AUTO_FUNCS = 0.0


class Gen(object):
    """seeded random formula generator.  `ops` is the set of Boolean/temporal operators allowed,
    `arith` the arithmetic operators allowed inside predicate operands."""

    def __init__(self, rng, vars_=("x", "y"), ops=None, arith=("add", "sub", "abs", "neg"), ivs=None,
                 consts=(0, 1, 2, 3), cmps=("ge", "gt", "le", "lt", "eq", "ne"), S=1, var_const_preds=False,
                 bool_atoms=True):
        self.r = rng
        self.vars = list(vars_)
        self.ops = list(ops if ops is not None else UN_BOOL + UN_TIMED + BIN_BOOL + ["sinceT", "untilT"])
        self.arith = list(arith)
        self.ivs = list(ivs or DEFAULT_IVS)
        self.consts = list(consts)
        self.cmps = list(cmps)
        self.S = S
        self.vcp = var_const_preds
        self.bool_atoms = bool_atoms
        self.tterm = 0.0          # probability of a (past) temporal operator inside an arithmetic term: (x - prev x) >= 1
        self.tterm_ops = ["prev", "sprev", "once", "hist", "onceT", "histT"]
        # probability of a function term (sqrt exp ln log pow) at a point where its value is exact; checks opt in by setting
        # astlib.AUTO_FUNCS (then about a fifth of their generators produce such terms)
        self.funcs = 0.35 if AUTO_FUNCS and rng.random() < AUTO_FUNCS else 0.0

    def funterm(self, d):
        """sqrt / exp / ln / log / pow applied where floating point is exact: exp(t - t) = 1, ln(exp(t - t)) = 0, ln(1 + (t - t)) = 0,
        log(1 + (t - t), 2) = 0, sqrt(t * t) = |t|, pow(t, 2), pow(2, |t|) (the last three at scale 1 only); t is any
        function-free term - also a temporal one, whose padding (+-inf) then reaches the function"""
        import copy
        r = self.r
        saved, self.funcs = self.funcs, 0.0
        t = self.term(d - 1)
        self.funcs = saved
        zero = bi("sub", t, copy.deepcopy(t))
        one = bi("add", const(self.S), zero)
        k = r.choice(["exp0", "lnexp", "ln1", "log1"] + (["sqrt", "sqrt", "pow2", "2pow"] if self.S == 1 else []))
        if k == "exp0":
            return un("exp", zero)
        if k == "lnexp":
            return un("ln", un("exp", zero))
        if k == "ln1":
            return un("ln", one)
        if k == "log1":
            return bi("log", one, const(2 * self.S))
        if k == "sqrt":
            return un("sqrt", bi("mul", t, copy.deepcopy(t)))
        if k == "pow2":
            return bi("pow", t, const(2))
        return bi("pow", const(2), un("abs", t))

    def term(self, d):
        r = self.r
        if self.tterm and r.random() < self.tterm:
            o_ = r.choice(self.tterm_ops)
            return un(o_, self.term(d - 1), *r.choice(self.ivs)) if o_ in UN_TIMED else un(o_, self.term(d - 1))
        if self.funcs and d >= 1 and r.random() < self.funcs:
            return self.funterm(d)
        if d <= 0 or not self.arith or r.random() < 0.45:
            if r.random() < 0.65:
                return var(r.choice(self.vars))
            return const(r.choice(self.consts) * (self.S if r.random() < 0.7 else 1))
        op = r.choice(self.arith)
        if op in UN_ARITH:
            return un(op, self.term(d - 1))
        return bi(op, self.term(d - 1), self.term(d - 1))

    def atom(self):
        r = self.r
        if self.vcp:
            c = const(r.choice(self.consts) * (self.S if r.random() < 0.7 else 1))
            if r.random() < 0.4:
                c = un("neg", c)
            return pred(r.choice(self.cmps), var(r.choice(self.vars)), c)
        if self.bool_atoms and r.random() < 0.12:
            return var(r.choice(self.vars))
        rhs = const(r.choice(self.consts) * (self.S if r.random() < 0.7 else 1))
        if r.random() < 0.3:
            rhs = un("neg", rhs)
        if r.random() < 0.25:
            rhs = self.term(1)
        return pred(r.choice(self.cmps), self.term(r.choice([0, 0, 1, 2])), rhs)

    def formula(self, d):
        r = self.r
        if d <= 0 or r.random() < 0.12:
            return self.atom()
        op = r.choice(self.ops)
        if op in UN_BOOL:
            return un(op, self.formula(d - 1))
        if op in UN_TIMED:
            a, b = r.choice(self.ivs)
            return un(op, self.formula(d - 1), a, b)
        if op in BIN_TIMED:
            a, b = r.choice(self.ivs)
            return bi(op, self.formula(d - 1), self.formula(d - 1), a, b)
        return bi(op, self.formula(d - 1), self.formula(d - 1))


def gen_trace(rng, vars_, n, S=1, lo=-4, hi=4, extremes=False):
    w = {}
    for v in vars_:
        vals = []
        for _ in range(n):
            if extremes and rng.random() < 0.1:
                vals.append(rng.choice([-99, 99]) * S)
            else:
                vals.append(rng.randint(lo * S, hi * S))
        w[v] = vals
    return w


def unscale(vals, S):
    """scaled integers -> Python numbers handed to rtamt (ints stay ints when S = 1 half of the time
    is decided by the caller; here always float unless exact int at S = 1)"""
    return [v / S if S != 1 else v for v in vals]
