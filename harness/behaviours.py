"""(B) specification -> code: TLC simulates behaviours of the life-cycle machine spec/Rtamt.tla (actions Parse, PastifyA,
Update, Reset of one object) with a history variable, prints each behaviour as JSON, and the behaviours are turned into
case scripts that are replayed on the real library and then validated by TraceDt like any recorded execution."""
import json
import os

import core
import tlc
from tlc import tla, tla_set
from astlib import to_text, vars_of
from cases import dt_obj


def simulate(name, formulas, vars_, vals=(-2, 1, 3), gaps=(1,), num=300, depth=8, seed=0, workers=8, timeout=600, mode="online", configs=None):
    """configs: the configurations an object may be created with and - offline - re-configured to (action Reconfigure)"""
    mod = "MC_" + name
    cfgrec = {"S": 1, "M": {"sem": "standard", "io": {v: "output" for v in vars_}}, "vars": set(vars_), "period": 1, "tol": 0}
    cfgtext = tla(cfgrec) if not configs else ", ".join(tla(c) for c in configs)
    text = """---- MODULE %s ----
EXTENDS Rtamt, Json
VARIABLE log
FormulasDef == %s
ConfigsDef == {%s}
ValsDef == %s
GapsDef == %s
RInit == Init /\\ log = <<>>
RNext == \\/ \\E f \\in Formulas : Parse(1, f) /\\ log' = Append(log, [a |-> "parse", phi |-> f, cfg |-> ms[1].cfg])
         \\/ \\E c \\in Configs : Reconfigure(1, c) /\\ log' = Append(log, [a |-> "config", cfg |-> c])
         \\/ \\E f \\in Formulas : Reparse(1, f) /\\ log' = Append(log, [a |-> "reparse", phi |-> f])
         \\/ \\E c \\in Configs : Retolerance(1, c) /\\ log' = Append(log, [a |-> "retol", cfg |-> c])
         \\/ PastifyA(1) /\\ log' = Append(log, [a |-> "pastify"])
         \\/ Repastify(1) /\\ log' = Append(log, [a |-> "pastify"])
         \\/ \\E s \\in Samples(ms[1].cfg.vars), g \\in Gaps :
               Update(1, s, g) /\\ log' = Append(log, [a |-> "update", s |-> s, t |-> NextStamp(ms[1], g)])
         \\/ Reset(1) /\\ log' = Append(log, [a |-> "reset"])
         \\/ \\E s \\in [ms[1].cfg.vars -> Vals], g \\in Gaps :
               Extend(1, s, g) /\\ log' = Append(log, [a |-> "extend", s |-> s, t |-> NextStamp(ms[1], g)])
RSpec == RInit /\\ [][RNext]_<<ms, log>>
\\* always true; prints the behaviour when it has reached the requested depth
Emit == (Len(log) = %d) => PrintT("BEHAVIOUR " \\o ToJson(log))
====
""" % (mod, tla_set(formulas), cfgtext, tla(set(vals)), tla(set(gaps)), depth)
    cfg = """CONSTANTS
 K = 1
 Configs <- ConfigsDef
 Formulas <- FormulasDef
 Vals <- ValsDef
 Gaps <- GapsDef
 MaxLen = %d
 Dev = {}
 Mode = "%s"
SPECIFICATION RSpec
INVARIANT Emit
INVARIANT InvC01
INVARIANT InvC02
INVARIANT InvC03
INVARIANT InvC10
INVARIANT InvC13
INVARIANT InvC01cfg
PROPERTY ActC16
PROPERTY ActReconf
""" % (depth, mode)
    wd = tlc.workdir(name)
    with open(os.path.join(wd, mod + ".tla"), "w") as f:
        f.write(text)
    with open(os.path.join(wd, mod + ".cfg"), "w") as f:
        f.write(cfg)
    res = tlc.run(wd, mod, workers=workers, timeout=timeout, simulate="num=%d" % num, depth=depth + 1, seed=seed + 1)
    if res["violated"]:
        return res, []
    behs = []
    for line in res["out"].splitlines():
        line = line.strip()
        if line.startswith('"BEHAVIOUR '):
            try:
                line = json.loads(line)
            except ValueError:
                continue
        if line.startswith("BEHAVIOUR "):
            try:
                behs.append(json.loads(line[len("BEHAVIOUR "):]))
            except ValueError:
                pass
    import shutil
    shutil.rmtree(wd, ignore_errors=True)
    if not behs:
        raise core.Machinery("%s: TLC simulation produced no behaviour\n%s" % (name, res["out"][-1500:]))
    return res, behs


def to_cases(behs, vars_, factories=("StlDiscreteTimeSpecification", "StlDiscreteTimeOnlineSpecification")):
    """one case script per distinct behaviour"""
    seen, cases = set(), []
    for i, b in enumerate(behs):
        key = json.dumps(b, sort_keys=True)
        if key in seen or not b or b[0]["a"] != "parse":
            continue
        seen.add(key)
        phi = b[0]["phi"]
        obj = dt_obj(phi, 1, list(vars_), factory=factories[i % len(factories)])
        c0 = b[0].get("cfg")
        if c0 and (c0["tol"] != 0 or c0["period"] != 1 or c0["M"]["sem"] != "standard"):
            # created with another configuration than the default one
            obj.update({"mode": c0["M"], "set_io": True, "period": c0["period"], "tol": c0["tol"], "unit": "s",
                        "set_period": [c0["period"], "s", c0["tol"] / float(c0["period"])]})
        evs, w, ts = [], {}, []
        for e in b:
            if e["a"] == "parse":
                evs.append({"o": 1, "a": "parse"})
            elif e["a"] == "pastify":
                evs.append({"o": 1, "a": "pastify"})
            elif e["a"] == "reset":
                evs.append({"o": 1, "a": "reset"})
            elif e["a"] == "reparse":
                evs.append({"o": 1, "a": "reparse", "phi": e["phi"], "text": "out = " + to_text(e["phi"], 1)})
            elif e["a"] == "retol":
                c = e["cfg"]
                evs.append({"o": 1, "a": "config", "set_period": [c["period"], "s", c["tol"] / float(c["period"])], "period": c["period"], "tol": c["tol"]})
            elif e["a"] == "config":
                # Reconfigure: set_sampling_period() with the new tolerance, set_var_io_type() of every variable and parse() again
                c = e["cfg"]
                evs.append({"o": 1, "a": "config", "set_period": [c["period"], "s", c["tol"] / float(c["period"])], "period": c["period"],
                            "tol": c["tol"], "io": c["M"]["io"]})
            elif e["a"] == "extend":
                # evaluate() on the trace extended by one sample, on the same object
                for v in vars_:
                    w.setdefault(v, []).append(e["s"][v])
                ts.append(e["t"])
                evs.append({"o": 1, "a": "evaluate", "ts": list(ts), "w": {v: list(w[v]) for v in vars_}})
            else:
                # (TLC prints the empty assignment - an update() that names no variable - as an empty list)
                evs.append({"o": 1, "a": "update", "t": e["t"], "s": e["s"] if isinstance(e["s"], dict) else {}})
        if any(e["a"] == "extend" for e in b):
            obj["factory"] = ("StlDiscreteTimeSpecification", "StlDiscreteTimeOfflineSpecification")[i % 2]
            if obj["mode"]["sem"] != "standard":
                obj["factory"] = "StlDiscreteTimeSpecification"     # (the offline-only class takes no semantics argument)
        cases.append({"objs": [obj], "events": evs, "rels": [], "skip": [], "from": "tlc-simulation"})
    return cases
