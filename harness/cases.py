"""Case builders shared by the checks (discrete time)."""
from astlib import to_text, vars_of


def dt_obj(phi, S=1, vars_=None, factory="StlDiscreteTimeSpecification", mode=None, period=1, tol=0, **kw):
    vs = list(vars_ if vars_ is not None else vars_of(phi))
    io = {v: "output" for v in vs}
    o = {"S": S, "vars": vs, "mode": mode or {"sem": "standard", "io": io}, "period": period, "tol": tol,
         "phi": phi, "text": kw.pop("text", None) or "out = " + to_text(phi, S), "factory": factory}
    o.update(kw)
    return o


def ev_parse(o=1): return {"o": o, "a": "parse"}
def ev_pastify(o=1): return {"o": o, "a": "pastify"}
def ev_reset(o=1): return {"o": o, "a": "reset"}
def ev_update(t, s, o=1, **kw):
    e = {"o": o, "a": "update", "t": t, "s": s}
    e.update(kw)
    return e
def ev_evaluate(ts, w, o=1, **kw):
    e = {"o": o, "a": "evaluate", "ts": list(ts), "w": w}
    e.update(kw)
    return e


def case(objs, events, rels=None, **kw):
    c = {"objs": objs, "events": events, "rels": rels or [], "skip": []}
    c.update(kw)
    return c


def sample_at(w, k):
    return {v: w[v][k] for v in w}


def ct_obj(phi, S=1, vars_=None, factory="StlDenseTimeSpecification", mode=None, **kw):
    vs = list(vars_ if vars_ is not None else vars_of(phi))
    io = {v: "output" for v in vs}
    o = {"S": S, "vars": vs, "mode": mode or {"sem": "standard", "io": io}, "dense": True,
         "phi": phi, "text": kw.pop("text", None) or "out = " + to_text(phi, S), "factory": factory}
    o.update(kw)
    return o


def ev_ct(a, w, o=1, **kw):
    e = {"o": o, "a": a, "w": w}
    e.update(kw)
    return e


def gen_signal(rng, n, t0=0, tmax=12, S=1, lo=-4, hi=4, end=None, stair=False):
    """n samples at distinct integer times starting at t0 (last at `end` if given)"""
    n = max(1, n)
    if end is not None:
        inner = sorted(rng.sample(range(t0 + 1, end), max(0, min(n - 2, end - t0 - 1)))) if end - t0 > 1 else []
        ts = [t0] + inner + ([end] if end > t0 else [])
    else:
        ts = [t0] + sorted(rng.sample(range(t0 + 1, tmax + 1), min(n - 1, tmax - t0)))
    mode = rng.random() if not stair else rng.uniform(0.6, 1.0)
    if mode < 0.6:
        vals = [rng.randint(lo * S, hi * S) for _ in ts]
    else:
        # monotone runs (staircases) after an extreme value: the shapes that exercise the sliding-window sweeps
        vals = sorted(rng.randint(lo * S, hi * S) for _ in ts)
        if mode < 0.8:
            vals.reverse()
        if len(vals) > 2 and rng.random() < 0.7:
            vals[0] = rng.choice([hi * S + S, lo * S - S])
    return [[t, v] for t, v in zip(ts, vals)]
