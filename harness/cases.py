"""Case builders shared by the checks (discrete time)."""
from astlib import to_text, vars_of


def dt_obj(phi, S=1, vars_=None, factory="StlDiscreteTimeSpecification", mode=None, period=1, tol=0, **kw):
    vs = list(vars_ if vars_ is not None else vars_of(phi))
    io = {v: "output" for v in vs}
    o = {"S": S, "vars": vs, "mode": mode or {"sem": "standard", "io": io}, "period": period, "tol": tol,
         "phi": phi, "text": kw.pop("text", None) or "out = " + to_text(phi, S), "factory": factory}
    o.update(kw)
    return o


def ev_parse(o=1): return {"o": o, "a": "parse"}
def ev_pastify(o=1): return {"o": o, "a": "pastify"}
def ev_reset(o=1): return {"o": o, "a": "reset"}
def ev_update(t, s, o=1, **kw):
    e = {"o": o, "a": "update", "t": t, "s": s}
    e.update(kw)
    return e
def ev_evaluate(ts, w, o=1, **kw):
    e = {"o": o, "a": "evaluate", "ts": list(ts), "w": w}
    e.update(kw)
    return e


def case(objs, events, rels=None, **kw):
    c = {"objs": objs, "events": events, "rels": rels or [], "skip": []}
    c.update(kw)
    return c


def sample_at(w, k):
    return {v: w[v][k] for v in w}
