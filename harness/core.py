"""Shared plumbing of the checks: batch trace validation, model-checking jobs, findings matching,
evidence files, exit codes.  exit 0 = property held on everything explored (possibly with
KNOWN-FINDING lines); exit 1 = VIOLATION; exit 2 = machinery failure."""
import concurrent.futures as cf
import json
import os
import shutil
import sys
import time

import tlc
from tlc import Machinery

VERIF = tlc.VERIF
EVID = os.path.join(VERIF, "evidence")
REPLAYS = os.path.join(VERIF, "replays")


def seed():
    try:
        return int(os.environ.get("VERIF_SEED", "0"))
    except ValueError:
        return 0


def tier(default="quick"):
    t = os.environ.get("VERIF_TIER", default)
    return t if t in ("quick", "thorough") else default


def _validate_batch(args):
    wd, idx, batch, module, cfg, timeout = args
    path = os.path.join(wd, "cases_%d.json" % idx)
    with open(path, "w") as f:
        json.dump(batch, f)
    sub = os.path.join(wd, "b%d" % idx)
    os.makedirs(sub, exist_ok=True)
    for ext in (".tla", ".cfg"):
        src = os.path.join(tlc.SPEC, (module if ext == ".tla" else cfg) + ext)
        shutil.copy(src, os.path.join(sub, os.path.basename(src)))
    res = tlc.run(sub, module, cfg=cfg, workers=1, timeout=timeout, env={"TRACE_FILE": path})
    vs = tlc.verdicts(res["out"])
    if len(vs) != len(batch) or res["rc"] != 0:
        raise Machinery("trace validation batch %d: %d verdicts for %d cases (rc=%s)\n%s"
                        % (idx, len(vs), len(batch), res["rc"], res["out"][-2500:]))
    return vs, res["generated"], res["distinct"]


def validate(name, cases, module="TraceDt", cfg=None, batch=400, timeout=1800, jobs=14):
    """returns (verdict list aligned with cases, states generated, distinct states)"""
    cfg = cfg or module
    wd = tlc.workdir(name + "_trace")
    for i, c in enumerate(cases):
        c["tid"] = i + 1
    batch = max(40, min(batch, (len(cases) + jobs - 1) // jobs))     # use all the JVMs we are allowed
    batches = [cases[i:i + batch] for i in range(0, len(cases), batch)]
    verdicts = {}
    gen = dist = 0
    with cf.ThreadPoolExecutor(max_workers=jobs) as ex:
        for vs, g, d in ex.map(_validate_batch, [(wd, i, b, module, cfg, timeout) for i, b in enumerate(batches)]):
            for v in vs:
                verdicts[v["tid"]] = v
            gen += g
            dist += d
    out = []
    for c in cases:
        if c["tid"] not in verdicts:
            raise Machinery("no verdict for tid %d" % c["tid"])
        out.append(verdicts[c["tid"]])
    if not os.environ.get("VERIF_KEEP"):
        shutil.rmtree(wd, ignore_errors=True)
    return out, gen, dist


def model_check(name, module, tla_text, cfg_text, workers=16, timeout=3600, expect_violation=False, **kw):
    """writes build/<name>/<module>.tla/.cfg and runs TLC; returns the tlc.run dict"""
    wd = tlc.workdir(name)
    with open(os.path.join(wd, module + ".tla"), "w") as f:
        f.write(tla_text)
    with open(os.path.join(wd, module + ".cfg"), "w") as f:
        f.write(cfg_text)
    res = tlc.run(wd, module, workers=workers, timeout=timeout, **kw)
    tlc.ok_or_machinery(res, name)
    if expect_violation and not res["violated"]:
        raise Machinery("%s: deviation-on configuration did not produce a counter-example (vacuous invariant?)" % name)
    if not os.environ.get("VERIF_KEEP"):
        shutil.rmtree(wd, ignore_errors=True)
    return res


def load_findings():
    with open(os.path.join(VERIF, "known_findings.json")) as f:
        return json.load(f)


class Report(object):
    """collects per-check results and turns them into evidence + exit code"""

    def __init__(self, prop, level="model_checking"):
        self.prop = prop
        self.level = level
        self.t0 = time.time()
        self.states = 0
        self.transitions = 0
        self.traces = 0
        self.evaluations = 0
        self.nontrivial = set()
        self.samples = []
        self.undef = 0
        self.violations = []      # (case, verdict)
        self.known = {}           # finding id -> count
        self.known_example = {}
        self.extra = {}
        self.assumptions = []
        self.mc_runs = []
        self.findings = load_findings()
        self.open_ids = {f["id"]: f for f in self.findings.get("findings", []) if f.get("status") == "open"}

    def add_mc(self, label, res, exhaustive=True):
        self.states += res["distinct"]
        self.transitions += res["generated"]
        self.mc_runs.append({"config": label, "distinct_states": res["distinct"], "states_generated": res["generated"],
                             "wall_s": round(res["wall"], 1), "exhaustive": exhaustive,
                             "violated": res["violated"]})

    def mc_violation(self, label, res):
        self.violations.append(({"model_check": label, "counterexample": tlc.counterexample(res["out"])},
                                {"clause": "model:" + ",".join(res["violated"]), "explained": []}))

    def add_traces(self, cases, verdicts, gen=0, dist=0, nontrivial_key=None):
        self.states += dist
        self.transitions += gen
        for c, v in zip(cases, verdicts):
            self.traces += 1
            self.evaluations += 1
            self.undef += v.get("undef", 0)
            if "compared" in v:      # binding diagnostic of the dense-time operational model (TraceCt / TraceOp)
                self.extra["operational_model_updates_matched_exactly"] = self.extra.get("operational_model_updates_matched_exactly", 0) + v["compared"]
                if v.get("drift"):
                    self.extra["operational_model_drift_cases"] = self.extra.get("operational_model_drift_cases", 0) + 1
            if nontrivial_key:
                k = nontrivial_key(c)
                if k is not None:
                    self.nontrivial.add(k)
            if v["ok"]:
                continue
            ex = [i for i in v.get("explained", []) if i in self.open_ids and self.prop in self.open_ids[i]["properties"]]
            if ex:
                for i in ex:
                    self.known[i] = self.known.get(i, 0) + 1
                    self.known_example.setdefault(i, {"case": slim(c), "verdict": v})
            else:
                self.violations.append((c, v))
        if cases and len(self.samples) < 3:
            self.samples.append(slim(cases[0]))
            if len(cases) > 1:
                self.samples.append(slim(cases[len(cases) // 2]))

    def finish(self, rule, exhaustive=False):
        os.makedirs(EVID, exist_ok=True)
        wall = time.time() - self.t0
        cov = {
            "states": max(self.states, 0), "transitions": max(self.transitions, 0),
            "traces_validated_against_impl": self.traces,
            "samples": self.samples[:4] or [{"note": "no sample recorded"}],
            "evaluations": self.evaluations,
            "distinct_nontrivial": len(self.nontrivial),
            "rule": rule, "exhaustive": exhaustive,
            "model_checking_runs": self.mc_runs,
            "undef_skipped_values": self.undef,
            "excused_by_known_finding": dict(self.known),
            "excused_example": {i: {"text": [o.get("text") for o in e["case"].get("objs", [])], "events": e["case"].get("events", [])[:12],
                                    "clause": e["verdict"].get("clause"), "step": e["verdict"].get("step")}
                                for i, e in self.known_example.items()},
            "clean": self.traces - sum(self.known.values()) - len(self.violations),
        }
        cov.update(self.extra)
        ev = {"property_id": self.prop, "tier": tier(), "seed": seed(), "level": self.level,
              "coverage": cov, "assumptions": self.assumptions, "wall_s": round(wall, 1),
              "violations": len(self.violations)}
        if not os.environ.get("VERIF_NOEVIDENCE"):      # (mutant trials must not overwrite the evidence of the real tree)
            with open(os.path.join(EVID, self.prop + ".json"), "w") as f:
                json.dump(ev, f, indent=1, sort_keys=True)
        if self.extra.get("operational_model_drift_cases"):
            print("NOTE: model drift - in %d cases a call of the real library (dense-time update() / evaluate(), explain()) did not return exactly "
                  "what the operational model (DenseOn!UpdateC, DenseOff!OffC, Explain!Explanation) computes (diagnostic: the verdicts are "
                  "taken from the contract clauses only)" % self.extra["operational_model_drift_cases"])
        for i, f_ in sorted(self.open_ids.items()):
            if self.prop in f_["properties"]:
                print("KNOWN-FINDING: property=%s %s %s (%d cases excused this run)" % (self.prop, i, f_["what"], self.known.get(i, 0)))
        if self.violations:
            os.makedirs(REPLAYS, exist_ok=True)
            seen, first, rest = set(), [], []
            for cv in self.violations:        # one replay per distinct clause first
                (rest if cv[1].get("clause") in seen else first).append(cv)
                seen.add(cv[1].get("clause"))
            for n, (c, v) in enumerate((first + rest)[:6]):
                path = os.path.join(REPLAYS, "%s_%d_%d.json" % (self.prop, seed(), n))
                with open(path, "w") as f:
                    json.dump({"property": self.prop, "case": c, "verdict": v}, f, indent=1)
                print("VIOLATION property=%s replay=%s" % (self.prop, path))
                print("  clause=%s step=%s expected=%s got=%s" % (v.get("clause"), v.get("step"),
                                                                 str(v.get("exp"))[:200], str(v.get("got"))[:200]))
            import collections
            hist = collections.Counter(v.get("clause") for _, v in self.violations)
            print("  clauses: %s" % dict(hist))
            print("%s: %d violation(s) in %d cases" % (self.prop, len(self.violations), self.traces))
            return 1
        print("%s: ok  (%d model states, %d traces validated, %d excused by known findings, %.0fs)"
              % (self.prop, self.states, self.traces, sum(self.known.values()), wall))
        return 0


def slim(c):
    """a readable projection of a case for evidence files"""
    try:
        o = c["objs"][0]
        d = {"text": o.get("text"), "factory": o.get("factory", "StlDiscreteTimeSpecification"),
             "events": [dict((k, v) for k, v in e.items() if k in ("a", "o", "s", "t", "w", "ts", "ret", "exc", "n"))
                        for e in c["events"][:6]]}
        if len(c["objs"]) > 1:
            d["other_texts"] = [x.get("text") for x in c["objs"][1:]]
        if c.get("rels"):
            d["rels"] = c["rels"]
        return d
    except Exception:
        return {"case": str(c)[:400]}


def main(fn):
    try:
        rc = fn()
    except Machinery as e:
        print("MACHINERY FAILURE: %s" % e)
        rc = 2
    sys.exit(rc)
