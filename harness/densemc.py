"""Model checking of the dense-time online operator model (spec/DenseOn.tla, DenseOnMC.tla) and replay of the behaviours
TLC explored on the real operator classes (specification -> code at operator level)."""
import json
import os
import shutil

import core
import tlc

CFG = """SPECIFICATION Spec
CONSTANTS
 Kind = "%s"
 A = %d
 B = %d
 MaxT = %d
 MaxN = %d
 Vals = %s
 Dev = %s
 DoPrint = %s
 T0 = %d
INVARIANT NoErr
INVARIANT Mono
INVARIANT BatchStrict
INVARIANT Agree
INVARIANT Covers
INVARIANT EmitBeh
CHECK_DEADLOCK FALSE
"""


def run(name, kind, a, b, maxt=5, maxn=4, vals=(1, 2, 3), dev=(), emit=False, workers=4, timeout=1800, expect_violation=False, t0=0):
    """exhaustive TLC run of DenseOnMC for one operator; returns (tlc result, behaviours printed by Emit)"""
    wd = tlc.workdir(name)
    shutil.copy(os.path.join(tlc.SPEC, "DenseOnMC.tla"), wd)
    with open(os.path.join(wd, "DenseOnMC.cfg"), "w") as f:
        f.write(CFG % (kind, a, b, maxt, maxn, tlc.tla(set(vals)), tlc.tla(set(dev)), "TRUE" if emit else "FALSE", t0))
    res = tlc.run(wd, "DenseOnMC", workers=workers, timeout=timeout, deadlock=True)
    tlc.ok_or_machinery(res, name)
    if expect_violation and not res["violated"]:
        raise core.Machinery("%s: deviation-on configuration produced no counter-example (vacuous invariants?)" % name)
    behs = []
    if emit and not res["violated"]:
        for line in res["out"].splitlines():
            line = line.strip()
            if line.startswith('"BEHAVIOUR '):
                try:
                    line = json.loads(line)
                except ValueError:
                    continue
            if line.startswith("BEHAVIOUR "):
                try:
                    behs.append(json.loads(line[len("BEHAVIOUR "):]))
                except ValueError:
                    pass
    if not os.environ.get("VERIF_KEEP"):
        shutil.rmtree(wd, ignore_errors=True)
    return res, behs


FCFG = """SPECIFICATION Spec
CONSTANTS
 Formulas <- FormulasDef
 MaxT = %d
 MaxN = %d
 Vals <- ValsDef
 Dev = %s
 SS = 1
 DoPrint = %s
 Starts = %s
 Sems = %s
 IOs = %s
INVARIANT EmitBeh
INVARIANT NoErr
INVARIANT Mono
INVARIANT Agree
CHECK_DEADLOCK FALSE
"""


def run_formulas(name, formulas, maxt=3, maxn=3, vals=(-2, 3), dev=(), workers=8, timeout=7200, expect_violation=False,
                 sems=("standard",), ios=("output",), simulate=None, seed=0, starts=(0,)):
    """simulate=N: TLC -simulate instead of exhaustive search; returns (result, behaviours printed by EmitBeh)"""
    """exhaustive TLC run of DenseOnFMC: formulas x signals x all per-variable schedules"""
    wd = tlc.workdir(name)
    mod = "MC_" + name
    with open(os.path.join(wd, mod + ".tla"), "w") as f:
        f.write("---- MODULE %s ----\nEXTENDS DenseOnFMC\nFormulasDef == %s\nValsDef == %s\n====\n" % (mod, tlc.tla_set(formulas), tlc.tla(set(vals))))
    with open(os.path.join(wd, mod + ".cfg"), "w") as f:
        f.write(FCFG % (maxt, maxn, tlc.tla(set(dev)), "TRUE" if simulate else "FALSE", tlc.tla(set(starts)), tlc.tla(set(sems)), tlc.tla(set(ios))))
    if simulate:
        res = tlc.run(wd, mod, workers=workers, timeout=timeout, deadlock=True, simulate="num=%d" % simulate, depth=2 * maxn + 2, seed=seed + 1)
    else:
        res = tlc.run(wd, mod, workers=workers, timeout=timeout, deadlock=True)
    tlc.ok_or_machinery(res, name)
    if expect_violation and not res["violated"]:
        raise core.Machinery("%s: deviation-on configuration produced no counter-example (vacuous invariants?)" % name)
    behs = []
    if simulate and not res["violated"]:
        for line in res["out"].splitlines():
            line = line.strip()
            if line.startswith('"BEHAVIOUR '):
                try:
                    line = json.loads(line)
                except ValueError:
                    continue
            if line.startswith("BEHAVIOUR "):
                try:
                    behs.append(json.loads(line[len("BEHAVIOUR "):]))
                except ValueError:
                    pass
    if not os.environ.get("VERIF_KEEP"):
        shutil.rmtree(wd, ignore_errors=True)
    return (res, behs) if simulate else res


OCFG = """SPECIFICATION Spec
CONSTANTS
 Formulas <- FormulasDef
 MaxT = %d
 MaxN = %d
 Vals <- ValsDef
 SS = 1
 T0 = %d
 Starts = %s
 Sems = %s
 IOs = %s
INVARIANT Denotes
%sCHECK_DEADLOCK FALSE
"""


def run_offline(name, formulas, maxt=3, maxn=3, vals=(-2, 1, 3), t0=0, workers=12, timeout=7200, expect_violation=False,
                sems=("standard",), ios=("output",), starts=(0,)):
    """exhaustive TLC run of DenseOffMC: the offline operational model denotes Dense!SigC for formulas x signal pairs"""
    wd = tlc.workdir(name)
    mod = "MC_" + name
    with open(os.path.join(wd, mod + ".tla"), "w") as f:
        f.write("---- MODULE %s ----\nEXTENDS DenseOffMC\nFormulasDef == %s\nValsDef == %s\n====\n" % (mod, tlc.tla_set(formulas), tlc.tla(set(vals))))
    with open(os.path.join(wd, mod + ".cfg"), "w") as f:
        f.write(OCFG % (maxt, maxn, t0, tlc.tla(set(starts)), tlc.tla(set(sems)), tlc.tla(set(ios)), "INVARIANT SigDIsSigC\n" if len(starts) > 1 else ""))
    res = tlc.run(wd, mod, workers=workers, timeout=timeout, deadlock=True)
    tlc.ok_or_machinery(res, name)
    if expect_violation and not res["violated"]:
        raise core.Machinery("%s: deviation-on configuration produced no counter-example (vacuous invariants?)" % name)
    if not os.environ.get("VERIF_KEEP"):
        shutil.rmtree(wd, ignore_errors=True)
    return res


SCFG = """SPECIFICATION SSpec
CONSTANTS
 SFormulas <- FDef
 K = 1
 Configs = {}
 Formulas = {}
 Vals = {}
 Gaps = {}
 MaxLen = 1
 Dev = {}
 Mode = "online"
INVARIANT PastifyClosed
INVARIANT DiscreteTotal
INVARIANT DenseTotal
CHECK_DEADLOCK FALSE
"""


def run_support(name, formulas, workers=6, timeout=3600):
    """SupportMC: the support guards of the outcome machine are consistent with the semantics and the operational models"""
    wd = tlc.workdir(name)
    mod = "MC_" + name
    with open(os.path.join(wd, mod + ".tla"), "w") as f:
        f.write("---- MODULE %s ----\nEXTENDS SupportMC\nFDef == %s\n====\n" % (mod, tlc.tla_set(formulas)))
    with open(os.path.join(wd, mod + ".cfg"), "w") as f:
        f.write(SCFG)
    res = tlc.run(wd, mod, workers=workers, timeout=timeout, deadlock=True)
    tlc.ok_or_machinery(res, name)
    if not os.environ.get("VERIF_KEEP"):
        shutil.rmtree(wd, ignore_errors=True)
    return res
