"""Model checking of the explainer model (spec/Explain.tla, ExplainMC.tla): reported positions are a sufficient cause."""
import os
import shutil

import core
import tlc

CFG = """SPECIFICATION Spec
CONSTANTS
 Formulas <- FormulasDef
 MaxN = %d
 Vals <- ValsDef
 Dev = %s
INVARIANT Sufficient
CHECK_DEADLOCK FALSE
"""


def run(name, formulas, maxn=3, vals=(1, 2, 3), dev=(), workers=8, timeout=7200, expect_violation=False):
    wd = tlc.workdir(name)
    mod = "MC_" + name
    with open(os.path.join(wd, mod + ".tla"), "w") as f:
        f.write("---- MODULE %s ----\nEXTENDS ExplainMC\nFormulasDef == %s\nValsDef == %s\n====\n" % (mod, tlc.tla_set(formulas), tlc.tla(set(vals))))
    with open(os.path.join(wd, mod + ".cfg"), "w") as f:
        f.write(CFG % (maxn, tlc.tla(set(dev))))
    res = tlc.run(wd, mod, workers=workers, timeout=timeout, deadlock=True)
    tlc.ok_or_machinery(res, name)
    if expect_violation and not res["violated"]:
        raise core.Machinery("%s: deviation-on configuration produced no counter-example (vacuous invariant?)" % name)
    if not os.environ.get("VERIF_KEEP"):
        shutil.rmtree(wd, ignore_errors=True)
    return res
