"""spec/Inputs.tla (which declared names are input signals): exhaustive TLC run, and replay of the behaviours TLC explored on
the real library - every behaviour (a sequence of assertions `name = formula over some identifiers`) becomes a specification
text whose value is known from the inlined formula; the four monitors must return that value (contract clauses of
TraceDt / TraceCt: update.ret, evaluate.ret, *.exc), which they do exactly when every signal a formula reads is fed."""
import os
import json
import shutil

import core
import tlc
from astlib import *
from cases import *

CFG = """SPECIFICATION Spec
CONSTANTS
 Ids = %s
 MaxA = %d
 MaxR = %d
 Dev = %s
 DoPrint = %s
INVARIANT ReadImpliesFree
INVARIANT OnlyAssignedNotFree
INVARIANT EmitBeh
CHECK_DEADLOCK FALSE
"""


def run(name, ids, maxa=3, maxr=2, dev=(), emit=False, workers=4, timeout=1800, expect_violation=False):
    wd = tlc.workdir(name)
    shutil.copy(os.path.join(tlc.SPEC, "Inputs.tla"), wd)
    with open(os.path.join(wd, "Inputs.cfg"), "w") as f:
        f.write(CFG % (tlc.tla(set(ids)), maxa, maxr, tlc.tla(set(dev)), "TRUE" if emit else "FALSE"))
    res = tlc.run(wd, "Inputs", workers=workers, timeout=timeout, deadlock=True)
    tlc.ok_or_machinery(res, name)
    if expect_violation and not res["violated"]:
        raise core.Machinery("%s: deviation-on configuration produced no counter-example (vacuous invariants?)" % name)
    behs = []
    if emit and not res["violated"]:
        for line in res["out"].splitlines():
            line = line.strip()
            if line.startswith('"BEHAVIOUR '):
                try:
                    line = json.loads(line)
                except ValueError:
                    continue
            if line.startswith("BEHAVIOUR "):
                try:
                    behs.append(json.loads(line[len("BEHAVIOUR "):]))
                except ValueError:
                    pass
    if not os.environ.get("VERIF_KEEP"):
        shutil.rmtree(wd, ignore_errors=True)
    return res, behs


def head(i):
    return i.split(".")[0]


def interesting(b):
    """some name is both assigned and read as an input signal (the other behaviours never touch the mechanism)"""
    rd = set(b["readv"])
    return any(head(a["name"]) in rd for a in b["asrts"])


def to_case(b, kind, rng):
    """behaviour -> (text, inlined formula) -> a case for monitor kind dt_off / dt_on / ct_off / ct_on; None if the final
    formula reads no signal (constants-only dense specifications are outside the properties)"""
    defs = {}
    texts = []
    for a in b["asrts"]:
        reads = sorted(a["reads"])
        asvar = set(a["asVar"])
        ops = [var(i) if i in asvar else defs[i] for i in reads]
        if len(ops) == 1:
            phi = bi("add", ops[0], const(1))
            txt = "( %s ) + 1" % reads[0]
        else:
            phi = bi("add", ops[0], ops[1])
            txt = "( %s ) + ( %s )" % (reads[0], reads[1])
        defs[a["name"]] = phi
        # (an assertion without a name is called out)
        texts.append(txt if a["name"] == "out" and rng.random() < 0.5 else "%s = %s" % (a["name"], txt))
    phi = defs[b["asrts"][-1]["name"]]
    # the data: exactly the signals some formula reads (also the formulas the output never refers to)
    ins = sorted(set(i for a in b["asrts"] for i in a["asVar"]))
    if not vars_of(phi):
        return None
    declared = sorted(set(["x", "y", "out"] + ins + [a["name"] for a in b["asrts"] if "." in a["name"]]))
    text = " ; ".join(texts)
    N = rng.choice([2, 3])
    skip = ["evaluate.viol", "update.viol"]
    if head(b["asrts"][-1]["name"]) == "o":
        skip += ["update.argsMutated", "evaluate.argsMutated"]     # the output field of the caller's object is the monitor's to write
    if kind.startswith("dt"):
        w = {v: [rng.choice([-3, -2, 2, 3, 5, 7]) for _ in range(N)] for v in ins}
        o = dt_obj(phi, 1, ins, text=text, declare=declared,
                   factory="StlDiscreteTimeOfflineSpecification" if kind == "dt_off" else "StlDiscreteTimeOnlineSpecification")
        if kind == "dt_off":
            evs = [ev_parse(), ev_evaluate(range(N), w)]
        else:
            evs = [ev_parse()] + [ev_update(t, sample_at(w, t)) for t in range(N)]
        return case([o], evs, kind=kind, skip=skip)
    ts = [0, 1, 3][:N]
    w = {v: [[t, rng.choice([-3, -2, 2, 3, 5, 7])] for t in ts] for v in ins}
    o = ct_obj(phi, 1, ins, text=text, declare=declared,
               factory="StlDenseTimeOfflineSpecification" if kind == "ct_off" else "StlDenseTimeOnlineSpecification")
    evs = [ev_parse(), ev_ct("evaluate" if kind == "ct_off" else "update", w)]
    return case([o], evs, kind=kind, skip=skip)
