"""Token-level view of the specification language for C14/C15: concrete spellings of an AST (aliases, separators,
minimal / redundant parentheses) and random / mutated token strings.  A token is {"k": class, "v": value, "t": text};
classes are those of spec/Lang.tla."""
from astlib import *

ALIAS = {
    "not": ["not", "!"], "and": ["and", "&"], "or": ["or", "|"], "implies": ["implies", "->"], "iff": ["iff", "<->"],
    "xor": ["xor"], "alw": ["always", "G"], "ev": ["eventually", "F"], "until": ["until", "U"], "unless": ["unless", "W"],
    "since": ["since", "S"], "once": ["once", "O"], "hist": ["historically", "H"], "next": ["next", "X"],
    "prev": ["prev", "Y"], "snext": ["s_next", "sX"], "sprev": ["s_prev", "sY"],
    "abs": ["abs"], "sqrt": ["sqrt"], "exp": ["exp"], "ln": ["ln"], "pow": ["pow"], "log": ["log"], "rise": ["rise"], "fall": ["fall"],
}
CMP_T = {"ge": ">=", "gt": ">", "le": "<=", "lt": "<", "eq": "==", "ne": "!=="}
ALT = {"neg": 2, "*": 9, "/": 9, "+": 10, "-": 10, "cmp": 11, "not": 12, "alw": 13, "ev": 14, "hist": 15, "once": 16, "prev": 17,
       "next": 18, "sprev": 19, "snext": 20, "until": 21, "unless": 22, "since": 23, "and": 24, "or": 25, "implies": 26, "iff": 27, "xor": 28}
PREC = {k: 33 - a for k, a in ALT.items()}

# AST op -> token class
UN_TOK = {"not": "not", "prev": "prev", "sprev": "sprev", "next": "next", "snext": "snext", "once": "once", "hist": "hist",
          "ev": "ev", "alw": "alw", "onceT": "once", "histT": "hist", "evT": "ev", "alwT": "alw"}
BIN_TOK = {"add": "+", "sub": "-", "mul": "*", "div": "/", "and": "and", "or": "or", "implies": "implies", "iff": "iff", "xor": "xor",
           "since": "since", "until": "until", "sinceT": "since", "untilT": "until", "unlessT": "unless", "unless": "unless"}
FN1 = {"abs", "sqrt", "exp", "ln", "rise", "fall"}
FN2 = {"pow", "log"}


def T(k, v="", t="\0"):
    """t omitted: the class name is the text (punctuation); t = None: filled in later from v"""
    return {"k": k, "v": v, "t": k if t == "\0" else t}


def kw(rng, k):
    return T(k, "", rng.choice(ALIAS[k]) if rng else ALIAS[k][0])


def num_tok(rng, c):
    forms = [str(c)]
    if rng:
        forms += [str(c), "%d.0" % c, "%d." % c] + (["%de0" % c] if c > 0 else [])
        if c >= 0:      # IntegerLiteral: hexadecimal and binary numerals, underscores between digits
            forms += [hex(c), bin(c).replace("0b", "0B")]
            if c >= 10:
                forms += [str(c)[0] + "_" + str(c)[1:], str(c)[0] + "__" + str(c)[1:]]
    return T("num", c, rng.choice(forms) if rng else forms[0])


def interval_toks(rng, p):
    sep = rng.choice([",", ":"]) if rng else ","
    hx = rng is not None and rng.random() < 0.08
    return [T("[")] + [T("num", p["a"], hex(p["a"])) if hx else num_tok(None, p["a"])] + [T(sep)] + \
           [T("num", p["b"], bin(p["b"])) if hx else num_tok(None, p["b"])] + [T("]")]


def node_prec(p):
    op = p["op"]
    if op == "neg":
        return PREC["neg"]
    if op == "pred":
        return PREC["cmp"]
    if op in UN_TOK:
        return PREC[UN_TOK[op]]
    if op in BIN_TOK:
        return PREC[BIN_TOK[op]]
    return 100        # primary


def is_prefix(p):
    return p["op"] == "neg" or p["op"] in UN_TOK


def is_binary(p):
    return p["op"] == "pred" or p["op"] in BIN_TOK


def open_prefix_min(p):
    """smallest precedence of a prefix operator on the unparenthesised right spine of p (100 if none)"""
    if is_prefix(p):
        return min(node_prec(p), open_prefix_min(p["l"]))
    if is_binary(p):
        return open_prefix_min(p["r"])
    return 100


def toks(p, rng=None, extra=0.0):
    """tokens of p with the minimal parentheses the grammar's precedence order allows (+ random redundant ones)"""
    def paren(ts):
        return [T("(")] + ts + [T(")")]

    def child(q, minprec, left_of=None):
        ts = toks(q, rng, extra)
        need = False
        if is_binary(q) and node_prec(q) < minprec:
            need = True
        if is_prefix(q) and minprec > node_prec(q) and left_of is None and False:
            need = True
        if left_of is not None and open_prefix_min(q) <= left_of:
            need = True
        if need or (rng and rng.random() < extra):
            ts = paren(ts)
            if rng and rng.random() < extra:
                ts = paren(ts)
        return ts

    op = p["op"]
    if op == "var":
        return [T("id", p["v"], p["v"])]
    if op == "const":
        return [num_tok(rng, p["c"])]
    if op == "neg":
        return [T("-")] + child(p["l"], PREC["neg"])
    if op in FN1:
        return [kw(rng, op), T("(")] + toks(p["l"], rng, extra) + [T(")")]
    if op in FN2:
        return [kw(rng, op), T("(")] + toks(p["l"], rng, extra) + [T(",")] + toks(p["r"], rng, extra) + [T(")")]
    if op in UN_TOK:
        k = UN_TOK[op]
        iv = interval_toks(rng, p) if op in UN_TIMED else []
        return [kw(rng, k)] + iv + child(p["l"], PREC[k])
    if op == "pred":
        P = PREC["cmp"]
        return child(p["l"], P, left_of=P) + [T("cmp", p["cmp"], CMP_T[p["cmp"]])] + child(p["r"], P + 1)
    if op in BIN_TOK:
        k = BIN_TOK[op]
        P = PREC[k]
        iv = interval_toks(rng, p) if op in BIN_TIMED else []
        optok = kw(rng, k) if k in ALIAS else T(k)
        return child(p["l"], P, left_of=P) + [optok] + iv + child(p["r"], P + 1)
    raise ValueError(op)


def full_toks(p, rng=None):
    """fully parenthesised token list (every operand in parentheses)"""
    def par(q):
        return [T("(")] + full_toks(q, rng) + [T(")")]
    op = p["op"]
    if op in ("var", "const") or op in FN1 or op in FN2:
        return toks(p, rng) if op in ("var", "const") else (
            [kw(rng, op), T("(")] + full_toks(p["l"], rng) + ([T(",")] + full_toks(p["r"], rng) if op in FN2 else []) + [T(")")])
    if op == "neg":
        return [T("-")] + par(p["l"])
    if op in UN_TOK:
        return [kw(rng, UN_TOK[op])] + (interval_toks(rng, p) if op in UN_TIMED else []) + par(p["l"])
    if op == "pred":
        return par(p["l"]) + [T("cmp", p["cmp"], CMP_T[p["cmp"]])] + par(p["r"])
    k = BIN_TOK[op]
    return par(p["l"]) + [kw(rng, k) if k in ALIAS else T(k)] + (interval_toks(rng, p) if op in BIN_TIMED else []) + par(p["r"])


def assertion(ts, rng=None, head=None, semi=None):
    out = list(ts)
    if head is None:
        head = (rng.random() < 0.6) if rng else True
    if semi is None:
        semi = (rng.random() < 0.6) if rng else True
    if head:
        out = [T("id", "out", "out"), T("=")] + out
    if semi:
        out = out + [T(";")]
    return out


def render(ts, rng=None):
    return " ".join(t["t"] for t in ts)


def strip(ts):
    return [{"k": t["k"], "v": t["v"]} for t in ts]


# ---- random token strings for C14
VOCAB = [
    lambda r: T("id", r.choice(["x", "y", "k", "sub"]), None), lambda r: num_tok(r, r.choice([0, 1, 2, 3])),
    lambda r: T("unit", r.choice(["s", "ms"]), None), lambda r: T("("), lambda r: T(")"), lambda r: T("["), lambda r: T("]"),
    lambda r: T(","), lambda r: T(":"), lambda r: T(";"), lambda r: T("="), lambda r: T("+"), lambda r: T("-"), lambda r: T("*"), lambda r: T("/"),
    lambda r: T("cmp", r.choice(list(CMP_T)), None),
    lambda r: kw(r, r.choice(["abs", "sqrt", "pow", "rise", "fall", "exp", "ln", "log"])),
    lambda r: kw(r, r.choice(["not", "alw", "ev", "hist", "once", "prev", "next", "sprev", "snext"])),
    lambda r: kw(r, r.choice(["until", "unless", "since", "and", "or", "implies", "iff", "xor"])),
    lambda r: T("const", "", "const"), lambda r: T("io", "", r.choice(["input", "output"])), lambda r: T("type", "", r.choice(["float", "int", "long", "complex"])),
    lambda r: T("other", "", r.choice(["{", "}", ".", "ps", "internal", "real", "bool", "assertion", "true", "FALSE"])),
    lambda r: T("ill", "", r.choice(["#", "?", "\\", '"', "'", "~", "^", "%", "`", "é"])),
    lambda r: T("spec", "", "specification"), lambda r: T("from", "", "from"), lambda r: T("import", "", "import"), lambda r: T("@", "", "@"), lambda r: T("topic", "", "topic"),
]


def fix_text(t):
    if t["t"] is None:
        if t["k"] == "cmp":
            t["t"] = CMP_T[t["v"]]
        else:
            t["t"] = str(t["v"])
    return t


def random_tokens(rng, n):
    w = [8, 6, 2, 6, 6, 3, 3, 3, 2, 4, 3, 3, 3, 2, 2, 5, 3, 6, 6, 1, 1, 1, 1, 2, 1, 1, 1, 1, 1]
    return [fix_text(rng.choices(VOCAB, weights=w)[0](rng)) for _ in range(n)]


def mutate(rng, ts):
    ts = [dict(t) for t in ts]
    for _ in range(rng.choice([1, 1, 2, 3])):
        m = rng.random()
        i = rng.randrange(len(ts) + 1)
        if m < 0.3 and ts:
            del ts[min(i, len(ts) - 1)]
        elif m < 0.6:
            ts.insert(i, random_tokens(rng, 1)[0])
        elif m < 0.8 and ts:
            ts[min(i, len(ts) - 1)] = random_tokens(rng, 1)[0]
        elif m < 0.9 and ts:
            j = min(i, len(ts) - 1)
            ts.insert(j, dict(ts[j]))
        else:
            ts = ts[:i]
    return ts
