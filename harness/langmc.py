"""Model checking of the language model's own theorems (spec/LangMC.tla): parser model within the recogniser on all short token
strings (C14), un-parse / parse round trip on an AST universe (C15)."""
import os
import shutil

import core
import tlc

MOD = """---- MODULE %s ----
EXTENDS LangMC
AlphabetDef == {T("id", "x"), T("num", "1"), T("(", ""), T(")", ""), T("[", ""), T("]", ""), T(",", ""), T(";", ""), T("=", ""), T("-", ""),
                T("cmp", "ge"), T("not", ""), T("alw", ""), T("until", ""), T("and", ""), T("abs", ""), T("unit", "s")}
AstsDef == %s
NoneParses == item = <<>> \\/ ~ParseAssertion(item).ok
====
"""
CFG = """SPECIFICATION Spec
CONSTANTS
 Alphabet <- AlphabetDef
 MaxL = %d
 Asts <- AstsDef
 Mode = "%s"
INVARIANT %s
CHECK_DEADLOCK FALSE
"""


def run(name, mode, asts=(), maxl=4, invariant=None, workers=10, timeout=3600, expect_violation=False):
    wd = tlc.workdir(name)
    mod = "MC_" + name
    with open(os.path.join(wd, mod + ".tla"), "w") as f:
        f.write(MOD % (mod, tlc.tla_set(list(asts)) if asts else "{}"))
    with open(os.path.join(wd, mod + ".cfg"), "w") as f:
        f.write(CFG % (maxl, mode, invariant or ("SubsetThm" if mode == "strings" else "RoundTrip")))
    res = tlc.run(wd, mod, workers=workers, timeout=timeout, deadlock=True)
    tlc.ok_or_machinery(res, name)
    if expect_violation and not res["violated"]:
        raise core.Machinery("%s: expected a counter-example (vacuous theorem?)" % name)
    if not os.environ.get("VERIF_KEEP"):
        shutil.rmtree(wd, ignore_errors=True)
    return res
