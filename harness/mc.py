"""Builders of model-checking jobs for spec/Rtamt.tla with generated formula universes."""
import core
from tlc import tla, tla_set


def std_cfg(vars_, S=1, period=1, tol=0, mode=None):
    return {"S": S, "M": mode or {"sem": "standard", "io": {v: "output" for v in vars_}},
            "vars": set(vars_), "period": period, "tol": tol}


def rtamt_mc(name, formulas, configs, vals=(-2, 1, 3), gaps=(1,), maxlen=3, dev=(), mode="online", K=1,
             invariants=(), properties=(), workers=16, timeout=3600, expect_violation=False, simulate=None,
             depth=None, extra_defs="", constraint=None):
    mod = "MC_" + name
    text = """---- MODULE %s ----
EXTENDS Rtamt
FormulasDef == %s
ConfigsDef == %s
ValsDef == %s
GapsDef == %s
DevDef == %s
%s
====
""" % (mod, tla_set(formulas), tla_set(configs), tla(set(vals)), tla(set(gaps)), tla(set(dev)), extra_defs)
    cfg = """CONSTANTS
 K = %d
 Configs <- ConfigsDef
 Formulas <- FormulasDef
 Vals <- ValsDef
 Gaps <- GapsDef
 MaxLen = %d
 Dev <- DevDef
 Mode = "%s"
SPECIFICATION Spec
""" % (K, maxlen, mode)
    for i in invariants:
        cfg += "INVARIANT %s\n" % i
    for p in properties:
        cfg += "PROPERTY %s\n" % p
    if constraint:
        cfg += "CONSTRAINT %s\n" % constraint
    return core.model_check(name, mod, text, cfg, workers=workers, timeout=timeout,
                            expect_violation=expect_violation, simulate=simulate, depth=depth)
