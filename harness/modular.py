"""Decomposition of a formula into named sub-specifications / declared constants (property C09, C12)."""
from astlib import *


def text_with_names(p, S, names):
    """like astlib.to_text but sub-formulas whose id() is in `names` are printed as their name"""
    if id(p) in names:
        return names[id(p)]
    op = p["op"]
    t = lambda q: text_with_names(q, S, names)
    if op == "var":
        return p["v"]
    if op == "const":
        return num_text(p["c"], S)
    if op == "neg":
        return "- ( " + t(p["l"]) + " )"
    if op in ("abs", "sqrt", "exp", "ln", "rise", "fall"):
        return KW[op] + " ( " + t(p["l"]) + " )"
    if op in ("pow", "log"):
        return KW[op] + " ( " + t(p["l"]) + " , " + t(p["r"]) + " )"
    if op in ("add", "sub", "mul", "div"):
        return "( " + t(p["l"]) + " ) " + KW[op] + " ( " + t(p["r"]) + " )"
    if op == "pred":
        return "( " + t(p["l"]) + " ) " + CMP_TXT[p["cmp"]] + " ( " + t(p["r"]) + " )"
    if op in ("not", "prev", "sprev", "next", "snext", "once", "hist", "ev", "alw"):
        return KW[op] + " ( " + t(p["l"]) + " )"
    if op in UN_TIMED:
        return KW[op] + " " + interval_text(p) + " ( " + t(p["l"]) + " )"
    if op in ("and", "or", "implies", "iff", "xor", "since", "until"):
        return "( " + t(p["l"]) + " ) " + KW[op] + " ( " + t(p["r"]) + " )"
    if op in ("sinceT", "untilT", "unlessT"):
        return "( " + t(p["l"]) + " ) " + KW[op] + " " + interval_text(p) + " ( " + t(p["r"]) + " )"
    raise ValueError(op)


def occurrences(p, out=None, depth=0):
    """all proper sub-formula occurrences (node objects), post-order"""
    if out is None:
        out = []
    for c in children(p):
        occurrences(c, out, depth + 1)
        out.append(c)
    return out


def decompose(rng, phi, S, nmax=3, consts=True, arith=False):
    """returns (subs: list of 'name = text', main text, const decls [[name, valuetext]], named: [(name, node)]);
    arith: arithmetic terms (load = req * 2) may be named, too"""
    occ = [q for q in occurrences(phi) if q["op"] not in ("var", "const") and (arith or not _arith(q))]
    rng.shuffle(occ)
    chosen = occ[: rng.randint(1, nmax)] if occ else []
    # share: every occurrence structurally equal to a chosen one gets the same name
    names = {}
    named = []
    k = 0
    for q in chosen:
        if id(q) in names:
            continue
        k += 1
        nm = "sub%d" % k
        named.append((nm, q))
        for r_ in occurrences(phi):
            if r_ == q and id(r_) not in names:
                names[id(r_)] = nm
    cdecl = []
    if consts:
        cs = [q for q in subformulas(phi) if q["op"] == "const"]
        rng.shuffle(cs)
        for j, q in enumerate(cs[: rng.randint(0, 2)]):
            nm = "k%d" % (j + 1)
            cdecl.append([nm, num_text(q["c"], S)])
            for r_ in subformulas(phi):
                if r_["op"] == "const" and r_["c"] == q["c"] and id(r_) not in names:
                    names[id(r_)] = nm
    # order sub-specs so that definitions precede uses: inner (smaller) first
    named.sort(key=lambda x: len(subformulas(x[1])))
    subs = []
    for nm, q in named:
        inner = dict(names)
        for i_ in [i_ for i_, n_ in names.items() if n_ == nm]:
            del inner[i_]
        subs.append("%s = %s" % (nm, text_with_names(q, S, inner)))
    main = text_with_names(phi, S, names)
    return subs, main, cdecl, named


def _arith(q):
    return q["op"] in UN_ARITH or q["op"] in BIN_ARITH
