"""Drives the real dense-time online operator classes batch by batch and records every call (arguments, outcome,
returned batch, memory after the call).  Records only; TraceOp.tla judges."""
import os
import sys

REPO = os.environ.get("VERIF_REPO", "/repo")
if REPO not in sys.path:
    sys.path.insert(0, REPO)

PINF = 100000000
BAD = 1999999998


def _num(x):
    if x == float("inf"):
        return PINF
    if x == -float("inf"):
        return -PINF
    if isinstance(x, bool) or x != x:
        return BAD
    if isinstance(x, int):
        return x
    if isinstance(x, float) and x == int(x) and abs(x) < PINF:
        return int(x)
    return BAD


def _val(x):
    return float("inf") if x >= PINF else -float("inf") if x <= -PINF else x


def _rs(x):
    return -1 if x in (float("inf"), -float("inf")) else _num(x)


def run_op_case(c):
    """c: {kind, a, b, sig, hist: [batch, ...]}  ->  c + events"""
    from rtamt.semantics.stl.dense_time.online.once_timed_operation import OnceTimedOperation
    from rtamt.semantics.stl.dense_time.online.historically_timed_operation import HistoricallyTimedOperation
    cls = OnceTimedOperation if c["kind"] == "onceT" else HistoricallyTimedOperation
    op = cls(c["a"], c["b"])
    evs = []
    dead = False
    for batch in c["hist"]:
        e = {"batch": [list(s) for s in batch], "exc": "", "ret": [], "prev": [], "rs": -1}
        if dead:
            e["exc"] = "skipped"
        else:
            try:
                r = op.update([[s[0], _val(s[1])] for s in batch])
                e["ret"] = [[_num(s[0]), _num(s[1])] for s in r]
                e["prev"] = [[_num(t[0]), _num(t[1]), _num(t[2])] for t in op.prev]
                e["rs"] = _rs(op.residual_start)
            except Exception as ex:      # noqa: recorded, not judged
                e["exc"] = type(ex).__name__
                dead = True
        evs.append(e)
    out = dict(c)
    out["events"] = [e for e in evs if e["exc"] != "skipped"]
    return out


def run_op_cases(cases):
    return [run_op_case(c) for c in cases]
