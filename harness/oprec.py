"""Drives the real dense-time online operator classes batch by batch and records every call (arguments, outcome,
returned batch, memory after the call).  Records only; TraceOp.tla judges."""
import os
import sys

REPO = os.environ.get("VERIF_REPO", "/repo")
if REPO not in sys.path:
    sys.path.insert(0, REPO)

PINF = 100000000
BAD = 1999999998


def _num(x):
    if x == float("inf"):
        return PINF
    if x == -float("inf"):
        return -PINF
    if isinstance(x, bool) or x != x:
        return BAD
    if isinstance(x, int):
        return x
    if isinstance(x, float) and x == int(x) and abs(x) < PINF:
        return int(x)
    return BAD


def _val(x):
    return float("inf") if x >= PINF else -float("inf") if x <= -PINF else x


def _rs(x):
    return -1 if x in (float("inf"), -float("inf")) else _num(x)


def _classes():
    from rtamt.semantics.stl.dense_time.online.once_timed_operation import OnceTimedOperation
    from rtamt.semantics.stl.dense_time.online.historically_timed_operation import HistoricallyTimedOperation
    return {"onceT": OnceTimedOperation, "histT": HistoricallyTimedOperation}


def _at(samples, t):
    v = None
    for s in samples:
        if s[0] <= t:
            v = s[1]
    return v


def applicable():
    """The operator classes are internals of the library: a refactoring may rename them, change their constructor, or move part
    of the work to the caller, and no property forbids that.  The operator-level replay is therefore applied only if the classes
    still have the interface it assumes: constructed with (begin, end), update(sample list) -> sample list that denotes
    once / historically[begin, end] of what was fed - probed on one fixed signal, fed at once and sample by sample.  Otherwise
    the replay is skipped (the whole-monitor replays remain).  Returns (bool, reason)."""
    try:
        cl = _classes()
        want = {"onceT": {0.5: 1, 1.5: 3, 2.5: 3}, "histT": {0.5: 1, 1.5: 1, 2.5: 2}}
        sig = [[0, 1], [1, 3], [2, 2], [4, 2]]
        for kind in ("onceT", "histT"):
            for chunks in ([sig], [[s_] for s_ in sig]):
                op = cl[kind](0, 1)
                out = []
                for ch in chunks:
                    out += [list(s_) for s_ in op.update([list(s_) for s_ in ch])]
                if not out:
                    return False, "no output on the probe signal"
                for t, v in want[kind].items():
                    if out[0][0] <= t <= out[-1][0] and _at(out, t) != v:
                        return False, "%s[0,1] on the probe signal: %r at time %r" % (kind, _at(out, t), t)
        return True, ""
    except Exception as ex:      # noqa
        return False, "%s: %s" % (type(ex).__name__, ex)


def run_op_case(c):
    """c: {kind, a, b, sig, hist: [batch, ...]}  ->  c + events"""
    cls = _classes()[c["kind"]]
    op = cls(c["a"], c["b"])
    evs = []
    dead = False
    for batch in c["hist"]:
        e = {"batch": [list(s) for s in batch], "exc": "", "ret": [], "prev": [], "rs": -1}
        if dead:
            e["exc"] = "skipped"
        else:
            try:
                r = op.update([[s[0], _val(s[1])] for s in batch])
                e["ret"] = [[_num(s[0]), _num(s[1])] for s in r]
            except Exception as ex:      # noqa: recorded, not judged
                e["exc"] = type(ex).__name__
                dead = True
            e["mem"] = False
            if not dead:
                try:
                    # the memory is private state: compared with the model's as a binding diagnostic where it can be read
                    e["prev"] = [[_num(t[0]), _num(t[1]), _num(t[2])] for t in op.prev]
                    e["rs"] = _rs(op.residual_start)
                    e["mem"] = True
                except Exception:      # noqa
                    e["prev"] = []; e["rs"] = -1
        evs.append(e)
    out = dict(c)
    out["events"] = [e for e in evs if e["exc"] != "skipped"]
    return out


def run_op_cases(cases):
    return [run_op_case(c) for c in cases]
