"""./check <ID> --replay <file>: re-runs one recorded case (a replays/*.json written on a violation) against the current
working tree of /repo and validates it again with the trace specification; prints the events and the verdict.
exit 0 = the case is accepted now, 1 = it still violates (VIOLATION line), 2 = machinery failure."""
import json
import os
import sys

sys.path.insert(0, os.path.dirname(os.path.abspath(__file__)))
import core
import runner


def main():
    prop, path = sys.argv[1], sys.argv[2]
    d = json.load(open(path))
    case = d.get("case", d)
    if "model_check" in case:
        print("this replay records a model-checking counter-example of configuration %s:\n%s" % (case["model_check"], case.get("counterexample", "")))
        print("re-run `./check %s` to re-check the model" % prop)
        return 1
    if "hist" in case and "sig" in case and "objs" not in case:
        # an operator-level behaviour (TLC's DenseOnMC) replayed on the real operator class
        import oprec
        out = oprec.run_op_cases([{k: case[k] for k in ("kind", "a", "b", "sig", "hist")}])
        module = "TraceOp"
    elif "mode" in case and "tokens" in case:
        fresh = dict(case)
        for k in ("outcome", "evalOut", "implAst", "ret", "msg", "evalMsg"):
            fresh.pop(k, None)
        out = runner.run_text_cases([fresh])
        out[0]["refRet"] = case.get("refRet", out[0].get("ret", []))
        module = "TraceLang"
    else:
        fresh = json.loads(json.dumps(case))
        out = runner.run_cases([fresh])
        module = "TraceCt" if any(o.get("dense") for o in case["objs"]) and not all(o.get("dense") is False for o in case["objs"]) else "TraceDt"
        if any(e.get("a") == "dt_evaluate" for e in case["events"]):
            module = "TraceCt"
    vs, _, _ = core.validate("replay", out, module=module)
    c, v = out[0], vs[0]
    if module == "TraceOp":
        print("operator: %s[%s,%s]  signal: %s" % (c["kind"], c["a"], c["b"], c["sig"]))
        for i, e in enumerate(c["events"]):
            print("%3d  update(%s) -> %s %s   memory: %s" % (i + 1, e["batch"], e["ret"], e["exc"], e["prev"]))
    elif "events" in c:
        for i, e in enumerate(c["events"]):
            print("%3d  obj %s  %-9s %s" % (i + 1, e.get("o"), e.get("a"), json.dumps({k: e[k] for k in e if k not in ("o", "a")})[:300]))
        for o in c["objs"]:
            print("object:", o.get("factory"), "|", o.get("text"), "| subs:", o.get("subs"), "| consts:", o.get("consts"))
    else:
        print("text:", repr(c.get("text")), "outcome:", c.get("outcome"), c.get("msg", ""), "| first evaluation:", c.get("evalOut"))
    print("verdict:", json.dumps(v))
    if v["ok"]:
        print("%s: the recorded case is accepted on the current tree" % prop)
        return 0
    fnd = core.load_findings()
    open_ids = {f["id"] for f in fnd.get("findings", []) if f.get("status") == "open" and prop in f["properties"]}
    ex = [i for i in v.get("explained", []) if i in open_ids]
    if ex:
        print("KNOWN-FINDING: property=%s %s (replayed case)" % (prop, ",".join(ex)))
        return 0
    print("VIOLATION property=%s replay=%s" % (prop, path))
    print("  clause=%s step=%s expected=%s got=%s" % (v.get("clause"), v.get("step"), str(v.get("exp"))[:300], str(v.get("got"))[:300]))
    return 1


core.main(main)
