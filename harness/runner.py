"""Executes case scripts against the real rtamt (imported from /repo's working tree) and records,
at the return of every public call, what was observed.  The recorder does not judge anything: it
only encodes observations (scaled integers, exception classes, "arguments unchanged" bits)."""
import copy
import json
import os
import signal
import sys
import traceback

REPO = os.environ.get("VERIF_REPO", "/repo")
if REPO not in sys.path:
    sys.path.insert(0, REPO)
os.environ.setdefault("RTAMT_VERIF", "1")

import logging
logging.disable(logging.CRITICAL)

from astlib import readback, scaled  # noqa: E402

BAD = 1999999998
PINF = 100000000


def enc(v, S):
    x = scaled(v, S)
    return x if isinstance(x, int) else BAD


def exc_class(e):
    try:
        from rtamt.exception.exception import RTAMTException
        if isinstance(e, RTAMTException):
            return "RTAMT"
    except Exception:
        pass
    return "other:" + type(e).__name__


class Timeout(Exception):
    pass


def _alarm(signum, frame):
    raise Timeout()


def make_obj(o):
    import rtamt
    if o.get("factory") == "ltl_online":
        # the LTL front end: LTL grammar / AST / pastifier with the discrete-time online interpreter
        from rtamt.syntax.ast.parser.ltl.specification_parser import LtlAst
        from rtamt.spec.abstract_specification import AbstractOnlineSpecification
        from rtamt.semantics.stl.discrete_time.online.interpreter import StlDiscreteTimeOnlineInterpreter
        from rtamt.pastifier.ltl.pastifier import LtlPastifier
        fac = lambda: AbstractOnlineSpecification(LtlAst(), StlDiscreteTimeOnlineInterpreter(), pastifier=LtlPastifier())
    else:
        fac = getattr(rtamt, o.get("factory", "StlDenseTimeSpecification" if o.get("dense") else "StlDiscreteTimeSpecification"))
    sem = o.get("mode", {}).get("sem", "standard")
    if sem != "standard":
        semv = {"out_rob": rtamt.Semantics.OUTPUT_ROBUSTNESS, "in_rob": rtamt.Semantics.INPUT_ROBUSTNESS,
                "out_vac": rtamt.Semantics.OUTPUT_VACUITY, "in_vac": rtamt.Semantics.INPUT_VACUITY}[sem]
        spec = fac(semantics=semv)
    elif o.get("explicit_standard"):
        spec = fac(semantics=rtamt.Semantics.STANDARD)
    else:
        spec = fac()
    spec.name = "verif"
    for v in o.get("declare", o["vars"]):
        if "." not in v:                      # "o.x": a field of the object variable o (declared below)
            spec.declare_var(v, "float")
    io = o.get("mode", {}).get("io", {})
    for v, t in sorted(io.items()):
        if o.get("set_io", sem != "standard") and "." not in v:
            spec.set_var_io_type(v, t)
    for c in o.get("consts", []):
        # [name, value text] or [name, value text, "float"]: the value handed to the API as a Python float
        spec.declare_const(c[0], "float", float(c[1]) if len(c) > 2 and c[2] == "float" else c[1])
    if o.get("unit") and not o.get("period_first"):
        spec.unit = o["unit"]
    if o.get("set_period"):
        sp = o["set_period"]
        spec.set_sampling_period(float(sp[0]) if o.get("period_as_float") else sp[0], sp[1], sp[2])
    if o.get("unit") and o.get("period_first"):
        spec.unit = o["unit"]       # the configuration calls in the other order: the sampling period first, then the default unit
    for s in o.get("subs", []):
        spec.add_sub_spec(s)
    spec.spec = o["text"]
    if o.get("out_field") or any("." in v for v in o.get("declare", o["vars"])):
        spec.import_module("vmsgs", "Msg")
        spec.declare_var("o", "Msg")
        for v, t in sorted(io.items()):
            # the input / output kind of the fields o.x, o.f is that of the object variable o (declared just now)
            if o.get("set_io", sem != "standard") and "." in v:
                spec.set_var_io_type(v.split(".")[0], t)
    if o.get("out_field"):
        # the output is a field of an object variable: "o.value = <formula>" instead of "out = <formula>"
        assert o["text"].startswith("out = ")
        spec.spec = "o.value = " + o["text"][len("out = "):]
    return spec


def objectify(args, dense=False):
    """[["o.x", payload], ["o.f", payload], ...] -> [["o", Msg payload], ...]: the inputs o.<field> are delivered as the fields of
    one object signal o (dense time: the fields share their time-stamps)"""
    from vmsgs import Msg
    out = []
    fields = [a for a in args if a[0].startswith("o.")]
    done = False
    for a in args:
        if not a[0].startswith("o."):
            out.append(a)
        elif not done:
            done = True
            if dense:
                objs = []
                for k in range(len(fields[0][1])):
                    m = Msg()
                    for fa in fields:
                        setattr(m, fa[0][2:], fa[1][k][1])
                    objs.append([fields[0][1][k][0], m])
                out.append(["o", objs])
            else:
                m = Msg()
                for fa in fields:
                    setattr(m, fa[0][2:], fa[1])
                out.append(["o", m])
    return out


def py_val(v, S, as_float):
    if S != 1:
        return v / float(S)
    return float(v) if as_float else v


def run_case(case):
    """fills in the observations of one case; never raises"""
    import contextlib, io
    with contextlib.redirect_stdout(io.StringIO()):      # (the library prints from a few operators, e.g. ln online)
        return _run_case(case)


_KEEP = []


def _intruder(o, cfg):
    signal.alarm(3)
    try:
        try:
            o2 = copy.deepcopy(o)
            o2["unit"] = cfg["unit"]
            spec = make_obj(o2)
            spec.parse()
            _KEEP.append(spec)
            del _KEEP[:-4]
            vs = o2.get("declare", o2["vars"])
            if cfg.get("pastify"):
                spec.pastify()
            if o2.get("dense"):
                args = [[v, [[0, 1], [1, 0], [3, 2]]] for v in vs]
                if "Offline" in o2["factory"] or (cfg.get("offline") and "Online" not in o2["factory"]):
                    spec.evaluate(*args)
                else:
                    spec.update(*args)
            elif "Offline" in o2["factory"] or (cfg.get("offline") and "Online" not in o2["factory"]):
                d = {"time": [0, 1, 2]}
                for v in vs:
                    d[v] = [1, 0, 2]
                spec.evaluate(d)
            else:
                for t in range(3):
                    spec.update(t, [[v, 1] for v in vs])
        finally:
            signal.alarm(0)
    except BaseException:  # noqa
        pass


def _run_case(case):
    out = copy.deepcopy(case)
    specs = {}
    shared = {}      # caller-owned data objects that are passed to several calls / several objects (C11)
    pristine = {}
    signal.signal(signal.SIGALRM, _alarm)
    for i, o in enumerate(out["objs"]):
        o.setdefault("implAst", {"op": "none"})
        o.setdefault("implKnown", False)
        o.setdefault("implPast", {"op": "none"})
    if case.get("intruder"):
        # another live specification object in the same process - a twin of object 1 (same text, same sampling period) configured
        # with another default unit - is parsed and exercised first; whatever it does or raises is ignored.  Objects are isolated
        # (C11), so the case's own objects must behave as the specification says (seeds r9 C08-1, C11-3: a class-level memo of
        # sample counts keyed without the default unit)
        _intruder(out["objs"][0], case["intruder"])
    for ev in out["events"]:
        oi = ev["o"]
        o = out["objs"][oi - 1]
        S = o["S"]
        ev["exc"] = ""
        signal.alarm(int(case.get("timeout", 20)))
        try:
            try:
                a = ev["a"]
                if a == "parse":
                    specs[oi] = make_obj(o)
                    if o.get("late_consts"):
                        # between the declarations of this object and its parse(), another specification object declares constants
                        # of the same names with other values, for itself (seed r10 C09-1: one constant table for all objects)
                        import rtamt as _rt
                        other = getattr(_rt, o.get("factory", "StlDiscreteTimeSpecification"))()
                        for c_ in o["late_consts"]:
                            other.declare_const(c_[0], "float", c_[1])
                        _KEEP.append(other)
                        del _KEEP[:-4]
                    specs[oi].parse()
                    # the AST clause needs the AST layout and node classes the codec knows; after a refactoring of
                    # those the clause is skipped (outputs are still compared), it must not raise an alarm
                    try:
                        o["implAst"] = readback(specs[oi].ast.specs[-1], S, full=("written" in o))
                        o["implKnown"] = "unknown:" not in json.dumps(o["implAst"])
                    except Exception:
                        o["implAst"] = {"op": "none"}
                        o["implKnown"] = False
                elif a == "pastify":
                    specs[oi].pastify()
                    try:
                        o["implPast"] = readback(specs[oi].ast.specs[-1], S, full=("written" in o))
                    except Exception:
                        o["implPast"] = {"op": "none"}
                elif a in ("update", "evaluate") and o.get("dense"):
                    spec = specs[oi]
                    tS = o.get("tS", 1)
                    order = ev.get("order") or sorted(ev["w"].keys())
                    args = objectify([[v, [[py_val(p[0], tS, False), py_val(p[1], S, ev.get("flt", False))] for p in ev["w"][v]]] for v in order], dense=True)
                    for v in sorted(ev.get("extra", {})):      # supplied but never declared; anywhere in the argument list
                        args.insert(min(ev.get("extra_at", len(args)), len(args)), [v, [list(p) for p in ev["extra"][v]]])
                    if ev.get("share"):
                        if ev["share"] not in shared:
                            shared[ev["share"]] = args
                            pristine[ev["share"]] = copy.deepcopy(args)
                        args = shared[ev["share"]]
                        keep = pristine[ev["share"]]
                    else:
                        keep = copy.deepcopy(args)
                    ev["ret"] = []; ev["same"] = True
                    r = spec.update(*args) if a == "update" else spec.evaluate(*args)
                    ev["ret"] = [[enc(p[0], 2 * tS), enc(p[1], S)] for p in r]
                    ev["same"] = (args == keep)
                elif a == "dt_evaluate":
                    spec = specs[oi]
                    data = {"time": list(ev["ts"])}
                    for v in sorted(ev["w"].keys()):
                        data[v] = [py_val(x, S, ev.get("flt", False)) for x in ev["w"][v]]
                    ev["ret"] = []
                    r = spec.evaluate(data)
                    ev["ret"] = [[enc(p[0], 2), enc(p[1], S)] for p in r]
                elif a == "update":
                    spec = specs[oi]
                    order = ev.get("order") or sorted(ev["s"].keys())
                    args = objectify([[v, py_val(ev["s"][v], S, ev.get("flt", False))] for v in order])
                    for v in sorted(ev.get("extra", {})):
                        args.insert(min(ev.get("extra_at", len(args)), len(args)), [v, ev["extra"][v]])
                    if ev.get("share"):
                        if ev["share"] not in shared:
                            shared[ev["share"]] = args
                            pristine[ev["share"]] = copy.deepcopy(args)
                        args = shared[ev["share"]]
                        keep = pristine[ev["share"]]
                    else:
                        keep = copy.deepcopy(args)
                    ev["ret"] = BAD; ev["viol"] = -1; ev["same"] = True
                    r = spec.update(py_val(ev["t"], o.get("tS", 1), False), args)
                    ev["ret"] = enc(r, S)
                    ev["same"] = (args == keep)
                    c = spec.sampling_violation_counter
                    ev["viol"] = c if isinstance(c, int) else -1
                elif a == "reset":
                    ev["viol"] = -1
                    specs[oi].reset()
                    c = specs[oi].sampling_violation_counter
                    ev["viol"] = c if isinstance(c, int) else -1
                elif a == "evaluate":
                    spec = specs[oi]
                    tS = o.get("tS", 1)
                    data = {"time": [py_val(t, tS, False) for t in ev["ts"]]}
                    order = ev.get("order") or sorted(ev["w"].keys())
                    for v in order:
                        data[v] = [py_val(x, S, ev.get("flt", False)) for x in ev["w"][v]]
                    if any(k.startswith("o.") for k in data):
                        from vmsgs import Msg
                        fk = [k for k in data if k.startswith("o.")]
                        objs = [Msg() for _ in data[fk[0]]]
                        for k in fk:
                            for m_, x_ in zip(objs, data[k]):
                                setattr(m_, k[2:], x_)
                        d2 = {}
                        for k, d in data.items():
                            if not k.startswith("o."):
                                d2[k] = d
                            elif "o" not in d2:
                                d2["o"] = objs
                        data = d2
                    for v in ev.get("extra", {}):
                        data[v] = list(ev["extra"][v])
                    if ev.get("share"):
                        if ev["share"] not in shared:
                            shared[ev["share"]] = data
                            pristine[ev["share"]] = copy.deepcopy(data)
                        data = shared[ev["share"]]
                        keep = pristine[ev["share"]]
                    else:
                        keep = copy.deepcopy(data)
                    ev["ret"] = []; ev["rett"] = []; ev["viol"] = -1; ev["same"] = True
                    r = spec.evaluate(data)
                    ev["ret"] = [enc(p[1], S) for p in r]
                    # time-stamps are echoed objects: encode each returned stamp by the input stamp it equals
                    tin = data["time"]
                    ev["rett"] = [ev["ts"][i] if i < len(tin) and p[0] == tin[i] else enc(p[0], tS) for i, p in enumerate(r)]
                    ev["same"] = (data == keep)
                    c = spec.sampling_violation_counter
                    ev["viol"] = c if isinstance(c, int) else -1
                elif a == "config":
                    # re-configuration of a parsed object: default unit and / or sampling period (units are resolved at evaluation)
                    spec = specs[oi]
                    if ev.get("unit"):
                        spec.unit = ev["unit"]
                    if ev.get("set_period"):
                        sp = ev["set_period"]
                        spec.set_sampling_period(sp[0], sp[1], sp[2])
                    if ev.get("io"):
                        # the input / output declarations changed on a parsed object, which is then parsed again (C06)
                        for v, t in sorted(ev["io"].items()):
                            spec.set_var_io_type(v.split(".")[0], t)       # (o.x: the kind of the object variable o)
                        spec.parse()
                elif a == "reparse":
                    # another text (and further sub-specifications) on the same object, parsed again
                    spec = specs[oi]
                    for s_ in ev.get("subs", []):
                        spec.add_sub_spec(s_)
                    spec.spec = ev["text"]
                    spec.parse()
                elif a == "explain":
                    spec = specs[oi]
                    ev["rep"] = {v: [] for v in o["vars"]}
                    spec.explain()
                    ex = spec.explainer.explanations
                    for v in o["vars"]:
                        ivs = ex.get(v, [])
                        ev["rep"][v] = [[int(iv[0]), int(iv[1])] for iv in ivs]
                elif a == "get":
                    spec = specs[oi]
                    ev["ret"] = []
                    r = spec.get_value(ev["n"])
                    if o.get("dense"):
                        ev["ret"] = [[enc(p[0], 2 * o.get("tS", 1)), enc(p[1], S)] for p in r]
                        ev["scalar"] = False
                    elif isinstance(r, (list, tuple)):
                        ev["ret"] = [enc(x, S) for x in r]
                        ev["scalar"] = False
                    else:
                        ev["ret"] = [enc(r, S)]
                        ev["scalar"] = True
                else:
                    ev["exc"] = "other:UnknownEvent"
            finally:
                signal.alarm(0)
        except Timeout:
            ev["exc"] = "timeout"
        except BaseException as e:  # noqa
            ev["exc"] = exc_class(e)
            ev["msg"] = (str(e) or "")[:200]
            if os.environ.get("VERIF_DEBUG"):
                traceback.print_exc()
    return out


def run_text_case(c):
    """parse() of a raw text (+ first evaluate on a 2-sample trace); observations only"""
    import rtamt
    out = dict(c)
    out.update({"outcome": "", "evalOut": "skipped", "implAst": {"op": "none"}, "implKnown": False, "ret": []})
    signal.signal(signal.SIGALRM, _alarm)
    signal.alarm(int(c.get("timeout", 5)))
    spec = None
    try:
        try:
            if c.get("factory") == "ltl_offline":
                # the LTL front end: LTL lexer/parser/visitor with the same discrete-time offline interpreter
                from rtamt.syntax.ast.parser.ltl.specification_parser import LtlAst
                from rtamt.spec.abstract_specification import AbstractOfflineSpecification
                from rtamt.semantics.stl.discrete_time.offline.interpreter import StlDiscreteTimeOfflineInterpreter
                spec = AbstractOfflineSpecification(LtlAst(), StlDiscreteTimeOfflineInterpreter())
            else:
                spec = getattr(rtamt, c.get("factory", "StlDiscreteTimeOfflineSpecification"))()
            nb = c.get("neighbour")
            if nb:
                # another live specification object with declarations of its own, parsed first: what it declared (constants,
                # variables) is unknown to the object under examination
                try:
                    other = getattr(rtamt, nb.get("factory", "StlDiscreteTimeOfflineSpecification"))()
                    for v in nb.get("declare", []):
                        other.declare_var(v, "float")
                    for k, val in nb.get("constdecl", []):
                        other.declare_const(k, "float", val)
                    other.spec = nb["text"]
                    other.parse()
                except Exception:  # noqa
                    pass
                out["_neighbour_alive"] = True
            for v in c.get("declare", []):
                spec.declare_var(v, "float")
            for k, val in c.get("constdecl", []):
                spec.declare_const(k, "float", None if val == "@None" else val)
            spec.spec = c["text"]
            spec.parse()
            out["outcome"] = "ok"
            try:
                out["implAst"] = readback(spec.ast.specs[-1], 1)
                out["implKnown"] = "unknown:" not in json.dumps(out["implAst"])
            except Exception as e:
                out["implAst"] = {"op": "unreadable:" + type(e).__name__}
                out["implKnown"] = False
        finally:
            signal.alarm(0)
    except Timeout:
        out["outcome"] = "timeout"
    except BaseException as e:  # noqa
        out["outcome"] = exc_class(e)
        out["msg"] = (str(e) or "")[:200]
    out["outcome2"] = ""
    if out["outcome"] == "RTAMT" and spec is not None and c.get("mode") == "C14":
        # the same object asked again with the text unchanged: a text that is not in the language stays rejected
        signal.alarm(int(c.get("timeout", 5)))
        try:
            try:
                spec.parse()
                out["outcome2"] = "ok"
            finally:
                signal.alarm(0)
        except Timeout:
            out["outcome2"] = "timeout"
        except BaseException as e:  # noqa
            out["outcome2"] = exc_class(e)
    if out["outcome"] == "ok" and c.get("data"):
        signal.alarm(int(c.get("timeout", 5)))
        try:
            try:
                d = copy.deepcopy(c["data"])
                if c.get("online"):
                    n = len(d["time"])
                    r = []
                    for i in range(n):
                        r.append(spec.update(d["time"][i], [[k, d[k][i]] for k in sorted(d) if k != "time"]))
                    out["ret"] = [enc(x, 1) for x in r]
                else:
                    r = spec.evaluate(d)
                    out["ret"] = [enc(p[1], 1) for p in r]
                out["evalOut"] = "ok"
            finally:
                signal.alarm(0)
        except Timeout:
            out["evalOut"] = "timeout"
        except BaseException as e:  # noqa
            out["evalOut"] = exc_class(e)
            out["evalMsg"] = (str(e) or "")[:200]
    return out


def run_text_cases(cases, procs=16):
    import multiprocessing as mp
    if len(cases) < 40:
        return [run_text_case(c) for c in cases]
    if os.environ.get("VERIF_SERIAL"):           # (line-coverage surveys of the library under the checks)
        return [run_text_case(c) for c in cases]
    with mp.get_context("fork").Pool(procs) as pool:
        return pool.map(run_text_case, cases, chunksize=max(1, len(cases) // (procs * 4)))


def run_cases(cases, procs=None):
    """run in a process pool; order preserved"""
    procs = procs or min(16, max(1, len(cases) // 20))
    if procs <= 1 or len(cases) < 40 or os.environ.get("VERIF_SERIAL"):
        return [run_case(c) for c in cases]
    import multiprocessing as mp
    ctx = mp.get_context("fork")
    with ctx.Pool(procs) as pool:
        return pool.map(run_case, cases, chunksize=max(1, len(cases) // (procs * 4)))


if __name__ == "__main__":
    # CLI used to run a batch under a given PYTHONHASHSEED: runner.py <cases.json> <traces.json>
    import json
    with open(sys.argv[1]) as f:
        cs = json.load(f)
    with open(sys.argv[2], "w") as f:
        json.dump([run_case(c) for c in cs], f)
