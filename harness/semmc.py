"""Model-checking jobs over spec/SemMC.tla (theorems about the semantics on all traces)."""
import core
from tlc import tla, tla_set


def run(name, pairs=(), forms=(), vars_=("x", "y"), vals=(-2, 1, 3), maxlen=4, S=1, invariants=("PairsEq",), lattice=(0,),
        workers=16, timeout=3600):
    mod = "MC_" + name
    text = """---- MODULE %s ----
EXTENDS SemMC
PairsDef == %s
FormsDef == %s
VarsDef == %s
ValsDef == %s
LatticeDef == %s
====
""" % (mod, tla_set([list(p) for p in pairs]), tla_set(forms), tla(set(vars_)), tla(set(vals)), tla(set(lattice)))
    cfg = """CONSTANTS
 Pairs <- PairsDef
 Forms <- FormsDef
 Vars <- VarsDef
 Vals <- ValsDef
 Lattice <- LatticeDef
 MaxLen = %d
 S = %d
SPECIFICATION Spec
""" % (maxlen, S)
    for i in invariants:
        cfg += "INVARIANT %s\n" % i
    return core.model_check(name, mod, text, cfg, workers=workers, timeout=timeout)
