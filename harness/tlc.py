"""Thin runner around TLC: emit TLA+ literals, run a model-checking or trace-validation job, parse
TLC's own statistics and the verdict lines our trace specifications print.  No judging here."""
import json
import os
import re
import shutil
import subprocess
import time

JAR = "/opt/veriftools/tla/tla2tools.jar"
DEPS = "/opt/veriftools/tla/CommunityModules-deps.jar"
VERIF = os.path.dirname(os.path.dirname(os.path.abspath(__file__)))
SPEC = os.path.join(VERIF, "spec")
BUILD = os.path.join(VERIF, "build")


class Machinery(Exception):
    """TLC / SANY failure: exit code 2 of the check, never a pass and never a violation"""


def tla(obj):
    """Python value -> TLA+ expression"""
    if isinstance(obj, bool):
        return "TRUE" if obj else "FALSE"
    if isinstance(obj, int):
        return str(obj) if obj >= 0 else "(%d)" % obj
    if isinstance(obj, str):
        return json.dumps(obj)
    if isinstance(obj, (list, tuple)):
        return "<<" + ", ".join(tla(x) for x in obj) + ">>"
    if isinstance(obj, (set, frozenset)):
        return "{" + ", ".join(sorted(tla(x) for x in obj)) + "}"
    if isinstance(obj, dict):
        if not obj:
            return "<<>>"
        return "[" + ", ".join("%s |-> %s" % (k, tla(v)) for k, v in obj.items()) + "]"
    raise TypeError(type(obj))


def tla_set(items):
    return "{" + ",\n   ".join(tla(x) for x in items) + "}"


def workdir(name):
    d = os.path.join(BUILD, "%s_%d" % (name, os.getpid()))      # per process: concurrent runs of a check do not collide
    shutil.rmtree(d, ignore_errors=True)
    os.makedirs(d)
    return d


_STATS = re.compile(r"(\d+) states generated, (\d+) distinct states found")


def run(module_dir, module, cfg=None, workers=8, timeout=3600, simulate=None, depth=None, env=None,
        deadlock=False, coverage=False, seed=None, dfs=False):
    """returns dict(out=str, rc=int, generated=int, distinct=int, violated=[names], wall=float)"""
    meta = os.path.join(module_dir, "meta_" + module)
    shutil.rmtree(meta, ignore_errors=True)
    if workers == 1:
        jopts = ["-XX:+UseSerialGC", "-XX:TieredStopAtLevel=1", "-Xss16m", "-Xmx2g", "-DTLA-Library=" + SPEC]
    else:
        jopts = ["-XX:+UseParallelGC", "-XX:ParallelGCThreads=4", "-Xss16m", "-Xmx6g", "-DTLA-Library=" + SPEC]
    # (TLC and SANY create scratch directories in java.io.tmpdir: keep them inside the job's own directory, which is removed with it)
    jtmp = os.path.join(module_dir, "jtmp")
    os.makedirs(jtmp, exist_ok=True)
    jopts.append("-Djava.io.tmpdir=" + jtmp)
    if dfs:
        jopts.append("-Dtlc2.tool.queue.IStateQueue=StateDeque")
    cmd = ["java"] + jopts + ["-cp", JAR + ":" + DEPS, "tlc2.TLC", "-workers", str(workers),
                              "-metadir", meta, "-noGenerateSpecTE"]
    if not deadlock:
        cmd += ["-deadlock"]
    if coverage:
        cmd += ["-coverage", "1"]
    if simulate:
        cmd += ["-simulate", simulate]
        if depth:
            cmd += ["-depth", str(depth)]
    if seed is not None:
        cmd += ["-seed", str(seed)]
    cmd += ["-config", (cfg or module) + ".cfg", module + ".tla"]
    e = dict(os.environ)
    e.pop("JAVA_TOOL_OPTIONS", None)
    if env:
        e.update(env)
    t0 = time.time()
    try:
        p = subprocess.run(cmd, cwd=module_dir, env=e, stdout=subprocess.PIPE, stderr=subprocess.STDOUT,
                           timeout=timeout, universal_newlines=True)
        out, rc = p.stdout, p.returncode
    except subprocess.TimeoutExpired as ex:
        out = (ex.stdout or b"").decode("utf-8", "replace") if isinstance(ex.stdout, bytes) else (ex.stdout or "")
        rc = 124
    wall = time.time() - t0
    shutil.rmtree(meta, ignore_errors=True)
    res = {"out": out, "rc": rc, "wall": wall, "generated": 0, "distinct": 0, "violated": []}
    ms = _STATS.findall(out)
    if ms:
        res["generated"], res["distinct"] = int(ms[-1][0]), int(ms[-1][1])
    for m in re.finditer(r"Invariant (\S+) is violated", out):
        res["violated"].append(m.group(1))
    for m in re.finditer(r"Action property (\S+) is violated", out):
        res["violated"].append(m.group(1))
    if "Temporal properties were violated" in out:
        res["violated"].append("temporal")
    if re.search(r"line \d+, col \d+ to line \d+, col \d+ of module", out) and "is violated" in out and not res["violated"]:
        res["violated"].append("property")
    return res


def ok_or_machinery(res, what):
    """a TLC run that neither finished cleanly nor reported a property violation is broken machinery"""
    out = res["out"]
    finished = "Model checking completed" in out or "Finished in" in out or res["rc"] == 124
    if res["violated"]:
        return
    if res["rc"] not in (0, 124) or "Error:" in out or "***Parse Error***" in out or not finished:
        raise Machinery("%s: TLC failed (rc=%s)\n%s" % (what, res["rc"], out[-3000:]))


def verdicts(out):
    """lines printed by a trace specification: "VERDICT {json}" """
    vs = []
    for line in out.splitlines():
        line = line.strip()
        if line.startswith('"VERDICT '):
            try:
                line = json.loads(line)
            except ValueError:
                continue
        if line.startswith("VERDICT "):
            try:
                vs.append(json.loads(line[len("VERDICT "):]))
            except ValueError:
                raise Machinery("unparseable verdict line: " + line[:300])
    return vs


def counterexample(out, maxlen=4000):
    i = out.find("Error:")
    return out[i:i + maxlen] if i >= 0 else ""
