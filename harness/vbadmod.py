"""A module that fails while it is being imported (C14: "from vbadmod import T" must end in RTAMTException, not ZeroDivisionError)."""
raise ZeroDivisionError("this module cannot be imported")
