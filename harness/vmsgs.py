"""A message type for specifications whose output and/or input is a field of an object variable (o.value = ..., o.x >= 1)."""


class Msg(object):
    def __init__(self, x=0.0):
        self.value = 0.0       # written by the monitor when the assertion is "o.value = ..."
        self.x = x             # read by formulas over "o.x"

    def __eq__(self, other):   # the caller's data is "unchanged" when the input field is (value is the monitor's to write)
        return isinstance(other, Msg) and self.x == other.x

    def __ne__(self, other):
        return not self.__eq__(other)

    def __repr__(self):
        return "Msg(%r)" % (self.x,)
