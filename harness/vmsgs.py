"""A message type for specifications whose output is a field of an object variable (o.value = ...)."""


class Msg(object):
    def __init__(self):
        self.value = 0.0
