"""A message type for specifications whose output and/or input is a field of an object variable (o.value = ..., o.x >= 1)."""


class Msg(object):
    def __init__(self, x=0.0, f=0.0, g=0.0):
        self.value = 0.0       # written by the monitor when the assertion is "o.value = ..."
        self.x = x             # read by formulas over "o.x"
        self.f = f             # o.f, o.g: read and / or assigned (spec/Inputs.tla behaviours)
        self.g = g

    def __eq__(self, other):   # the caller's data is "unchanged" when the input fields are (value is the monitor's to write)
        return isinstance(other, Msg) and (self.x, self.f, self.g) == (other.x, other.f, other.g)

    def __ne__(self, other):
        return not self.__eq__(other)

    def __repr__(self):
        return "Msg(%r, %r, %r)" % (self.x, self.f, self.g)


class Touchy(object):
    """a type whose field raises when it is read (parse() reads the fields a specification names to check their type)"""
    @property
    def p(self):
        raise ValueError("not available")
