------------------------------- MODULE Dense -------------------------------
(***************************************************************************)
(* Dense-time semantics of STL for piecewise-constant (right-continuous    *)
(* step) signals, under rtamt's finitary interpretation: every input is    *)
(* held at its last value after its last sample, windows are closed,       *)
(* until / since are non-strict.                                           *)
(*                                                                         *)
(* All break-points and all bounds of a case are integers (after the       *)
(* case's time scaling).  Then every sub-formula's robustness is constant  *)
(* on each unit cell [k, k+1) (induction on the formula: a closed window   *)
(* [t-b, t-a] or [t+a, t+b] meets the same set of unit cells for every t   *)
(* of a cell, because the inputs are right-continuous), so the semantics   *)
(* is given exactly - not approximately - by a computation on cells:       *)
(*    C[v] = << value on [D0, D0+1), ..., value on [D0+n-2, D0+n-1),       *)
(*              value on [D0+n-1, infinity) >>          (n = T - D0 + 1)    *)
(* where D0 is the begin of the common input domain and T its end.         *)
(* Cell index k of a TLA+ sequence is the cell starting at D0 + k - 1;     *)
(* indices beyond n denote the held tail and are clipped to n; windows     *)
(* reaching before D0 are cut (empty window: -inf / +inf).                 *)
(*                                                                         *)
(* SigC(p, C, n, S, M) mirrors rtamt/semantics/stl/dense_time/offline.     *)
(* prev / next / rise / fall and the strong variants have no dense-time    *)
(* meaning (unsupported, property C17).                                    *)
(***************************************************************************)
EXTENDS Sem

DenseUnsupported == {"prev", "sprev", "next", "snext", "rise", "fall", "precT"}
DenseOK(p) == ~HasOp(p, DenseUnsupported)

Clip(j, n) == IF j > n THEN n ELSE j
PastWin(n, lo, hi) == {j \in 1..n : lo <= j /\ j <= hi}
FutWin(n, lo, hi) == {Clip(j, n) : j \in lo..hi}

RECURSIVE SigC(_, _, _, _, _)
SigC(p, C, n, S, M) ==
  LET T == 1..n IN
  IF p.op = "var" THEN C[p.v]
  ELSE IF p.op = "const" THEN [t \in T |-> p.c]
  ELSE IF p.op \in Un1 THEN
    LET L == SigC(p.l, C, n, S, M) IN
    CASE p.op = "abs"   -> [t \in T |-> Abs(L[t])]
      [] p.op = "neg"   -> [t \in T |-> Neg(L[t])]
      [] p.op = "sqrt"  -> [t \in T |-> Sqrt(L[t], S)]
      [] p.op = "exp"   -> [t \in T |-> IF L[t] = 0 THEN S ELSE IF L[t] = NInf THEN 0 ELSE IF L[t] = PInf THEN PInf ELSE Undef]
      [] p.op = "ln"    -> [t \in T |-> IF L[t] = S THEN 0 ELSE IF L[t] = PInf THEN PInf ELSE Undef]
      [] p.op = "not"   -> [t \in T |-> Neg(L[t])]
      [] p.op = "once"  -> [t \in T |-> SetMax({L[j] : j \in 1..t})]
      [] p.op = "hist"  -> [t \in T |-> SetMin({L[j] : j \in 1..t})]
      [] p.op = "ev"    -> [t \in T |-> SetMax({L[j] : j \in t..n})]
      [] p.op = "alw"   -> [t \in T |-> SetMin({L[j] : j \in t..n})]
      [] p.op = "onceT" -> [t \in T |-> SetMax({L[j] : j \in PastWin(n, t - p.b, t - p.a)})]
      [] p.op = "histT" -> [t \in T |-> SetMin({L[j] : j \in PastWin(n, t - p.b, t - p.a)})]
      [] p.op = "evT"   -> [t \in T |-> SetMax({L[j] : j \in FutWin(n, t + p.a, t + p.b)})]
      [] p.op = "alwT"  -> [t \in T |-> SetMin({L[j] : j \in FutWin(n, t + p.a, t + p.b)})]
      [] OTHER -> [t \in T |-> Undef]
  ELSE
    LET L == SigC(p.l, C, n, S, M)
        R == SigC(p.r, C, n, S, M) IN
    CASE p.op = "add"     -> [t \in T |-> Add(L[t], R[t])]
      [] p.op = "sub"     -> [t \in T |-> Sub(L[t], R[t])]
      [] p.op = "mul"     -> [t \in T |-> Mul(L[t], R[t], S)]
      [] p.op = "div"     -> [t \in T |-> Div(L[t], R[t], S)]
      [] p.op = "pow"     -> [t \in T |-> Pow(L[t], R[t], S)]
      [] p.op = "log"     -> [t \in T |-> IF L[t] = S /\ IsFin(R[t]) /\ R[t] > S THEN 0 ELSE Undef]
      [] p.op = "pred"    -> [t \in T |-> PredIA(p, L[t], R[t], M)]
      [] p.op = "and"     -> [t \in T |-> Min2(L[t], R[t])]
      [] p.op = "or"      -> [t \in T |-> Max2(L[t], R[t])]
      [] p.op = "implies" -> [t \in T |-> Max2(Neg(L[t]), R[t])]
      [] p.op = "iff"     -> [t \in T |-> Neg(Abs(Sub(L[t], R[t])))]
      [] p.op = "xor"     -> [t \in T |-> Abs(Sub(L[t], R[t]))]
      \* non-strict: the left operand must hold on the closed span between the witness and now
      [] p.op = "since"   -> [t \in T |-> SetMax({Min2(R[j], SetMin({L[i] : i \in j..t})) : j \in 1..t})]
      [] p.op = "until"   -> [t \in T |-> SetMax({Min2(R[j], SetMin({L[i] : i \in t..j})) : j \in t..n})]
      [] p.op = "sinceT"  -> [t \in T |-> SetMax({Min2(R[j], SetMin({L[i] : i \in j..t})) : j \in PastWin(n, t - p.b, t - p.a)})]
      [] p.op = "untilT"  -> [t \in T |-> SetMax({Min2(R[j], SetMin({L[i] : i \in t..j})) : j \in FutWin(n, t + p.a, t + p.b)})]
      [] OTHER -> [t \in T |-> Undef]

---------------------------------------------------------------------------
\* Signals that begin at different times.  A variable is defined from its first sample on; a sub-formula is defined where
\* all its variables are (its domain is [begin of its latest variable, infinity)), and it is evaluated *on its own domain*:
\* in  once(x >= 1) and (y >= 0)  with x from 0 and y from 2, the value at time 2 sees x on [0, 2] although the result
\* begins at 2 (rtamt evaluates every operator on the whole operand and intersects the domains at binary operators).
\* SigD applies the clauses of SigC node by node: the operands' results, cut to the common domain, take the place of input
\* signals.  C: cells over the union domain 1..n (anything before a variable's begin), O[v]: cells before the begin of v.
\* Result: [o |-> leading cells on which p is undefined, s |-> its values on cells o+1 .. n].
VarL == [op |-> "var", v |-> "L_"]
VarR == [op |-> "var", v |-> "R_"]
RECURSIVE SigD(_, _, _, _, _, _)
SigD(p, C, O, n, S, M) ==
  IF p.op = "var" THEN [o |-> O[p.v], s |-> [k \in 1..(n - O[p.v]) |-> C[p.v][k + O[p.v]]]]
  ELSE IF p.op = "const" THEN [o |-> 0, s |-> [k \in 1..n |-> p.c]]
  ELSE IF p.op \in Un1 THEN
    LET L == SigD(p.l, C, O, n, S, M) IN
    [o |-> L.o, s |-> SigC([p EXCEPT !.l = VarL], [v \in {"L_"} |-> L.s], n - L.o, S, M)]
  ELSE
    LET L == SigD(p.l, C, O, n, S, M)
        R == SigD(p.r, C, O, n, S, M)
        o == IF L.o >= R.o THEN L.o ELSE R.o
        cl == [k \in 1..(n - o) |-> L.s[k + o - L.o]]
        cr == [k \in 1..(n - o) |-> R.s[k + o - R.o]] IN
    IF p.op = "pred" THEN [o |-> o, s |-> [t \in 1..(n - o) |-> PredIA(p, cl[t], cr[t], M)]]
    ELSE [o |-> o, s |-> SigC([p EXCEPT !.l = VarL, !.r = VarR], [v \in {"L_", "R_"} |-> IF v = "L_" THEN cl ELSE cr], n - o, S, M)]

\* two ASTs denote the same dense-time signal transformer on all short cell sequences (cf. Sem!SemEq)
SemEqC(p, q, S, M) ==
  LET vs == VarsOf(p) \cup VarsOf(q)
      maxN == IF Cardinality(vs) <= 1 THEN 3 ELSE IF Cardinality(vs) = 2 THEN 2 ELSE 1 IN
  \* (a formula with prev / next / rise / fall has no dense-time meaning, but its tree still means what it means in discrete time)
  IF ~DenseOK(p) \/ ~DenseOK(q) THEN SemEq(p, q, S, M)
  ELSE \A n \in 1..maxN : \A C \in [vs -> [1..n -> {-2 * S, S, 3 * S}]] : SigC(p, C, n, S, M) = SigC(q, C, n, S, M)

---------------------------------------------------------------------------
\* Boolean satisfaction on cells (property C07 in dense time), defined independently of SigC
RECURSIVE SatC(_, _, _, _)
SatC(p, C, n, S) ==
  LET T == 1..n IN
  IF p.op = "pred" THEN
    LET L == Val(p.l, C, n, S)
        R == Val(p.r, C, n, S) IN
    [t \in T |-> PredHolds(p.cmp, L[t], R[t])]
  ELSE IF p.op \in Un1 THEN
    LET L == SatC(p.l, C, n, S) IN
    CASE p.op = "not"   -> [t \in T |-> ~L[t]]
      [] p.op = "once"  -> [t \in T |-> \E j \in 1..t : L[j]]
      [] p.op = "hist"  -> [t \in T |-> \A j \in 1..t : L[j]]
      [] p.op = "ev"    -> [t \in T |-> \E j \in t..n : L[j]]
      [] p.op = "alw"   -> [t \in T |-> \A j \in t..n : L[j]]
      [] p.op = "onceT" -> [t \in T |-> \E j \in PastWin(n, t - p.b, t - p.a) : L[j]]
      [] p.op = "histT" -> [t \in T |-> \A j \in PastWin(n, t - p.b, t - p.a) : L[j]]
      [] p.op = "evT"   -> [t \in T |-> \E j \in FutWin(n, t + p.a, t + p.b) : L[j]]
      [] p.op = "alwT"  -> [t \in T |-> \A j \in FutWin(n, t + p.a, t + p.b) : L[j]]
  ELSE
    LET L == SatC(p.l, C, n, S)
        R == SatC(p.r, C, n, S) IN
    CASE p.op = "and"     -> [t \in T |-> L[t] /\ R[t]]
      [] p.op = "or"      -> [t \in T |-> L[t] \/ R[t]]
      [] p.op = "implies" -> [t \in T |-> L[t] => R[t]]
      [] p.op = "iff"     -> [t \in T |-> L[t] <=> R[t]]
      [] p.op = "xor"     -> [t \in T |-> ~(L[t] <=> R[t])]
      [] p.op = "since"   -> [t \in T |-> \E j \in 1..t : R[j] /\ \A i \in j..t : L[i]]
      [] p.op = "until"   -> [t \in T |-> \E j \in t..n : R[j] /\ \A i \in t..j : L[i]]
      [] p.op = "sinceT"  -> [t \in T |-> \E j \in PastWin(n, t - p.b, t - p.a) : R[j] /\ \A i \in j..t : L[i]]
      [] p.op = "untilT"  -> [t \in T |-> \E j \in FutWin(n, t + p.a, t + p.b) : R[j] /\ \A i \in t..j : L[i]]
DenseBool(p) == IsBoolFormula(p) /\ DenseOK(p) /\ ~HasOp(p, {"iff", "xor"})

\* A bounded past operator keeps changing for up to b time units after its operand has settled, so the inputs
\* are extended (held) by Settle(p) cells beyond the end of the domain before SigC is applied; beyond that every
\* sub-formula is constant and the clipped tail cell is exact.
RECURSIVE Settle(_)
Settle(p) == IF p.op \in {"var", "const"} THEN 0
             ELSE IF p.op \in Un1 THEN Settle(p.l) + (IF p.op \in Timed THEN p.b ELSE 0)
             ELSE Settle(p.l) + Settle(p.r) + (IF p.op \in Timed THEN p.b ELSE 0)

\* sample lists <-> cells

\* value of the right-continuous step function given by the sample list sl (pairs <<time, value>>, times
\* non-decreasing) at time tm; NoVal when tm lies before the first sample
NoVal == 1999999997
StepAt(sl, tm) ==
  LET idx == {i \in 1..Len(sl) : sl[i][1] <= tm} IN
  IF idx = {} THEN NoVal ELSE sl[CHOOSE i \in idx : \A j \in idx : j <= i][2]

FirstT(sl) == sl[1][1]
LastT(sl) == sl[Len(sl)][1]
DomBegin(W, vs) == CHOOSE t \in {FirstT(W[v]) : v \in vs} : \A u \in vs : FirstT(W[u]) <= t
DomEnd(W, vs)   == CHOOSE t \in {LastT(W[v]) : v \in vs} : \A u \in vs : LastT(W[u]) >= t

\* cells of the input signals on the common domain [d0, d1]
CellsOf(W, vs, d0, d1) == [v \in vs |-> [k \in 1..(d1 - d0 + 1) |-> StepAt(W[v], d0 + k - 1)]]

\* the same when the signals begin at different times: the robustness of p on the cells of the common domain
\* [DomBegin, dS], every sub-formula evaluated on its own domain (SigD)
DomMin(W, vs) == CHOOSE t \in {FirstT(W[v]) : v \in vs} : \A u \in vs : FirstT(W[u]) >= t
SameStart(W, vs) == \A u, v \in vs : FirstT(W[u]) = FirstT(W[v])
SigDOf(p, W, vs, dS, S, M) ==
  LET dm == DomMin(W, vs) IN
  SigD(p, CellsOf(W, vs, dm, dS), [v \in vs |-> FirstT(W[v]) - dm], dS - dm + 1, S, M)
SigOnDomain(p, W, vs, dS, S, M) ==
  LET d0 == DomBegin(W, vs)
      R == SigDOf(p, W, vs, dS, S, M)
      sh == d0 - DomMin(W, vs) - R.o IN
  [k \in 1..(dS - d0 + 1) |-> R.s[k + sh]]
UndefSomewhere(p, W, vs, dS, S, M) == \E q \in SubF(p) : HasUndef(SigDOf(q, W, vs, dS, S, M).s)

Monotone(sl) == \A i \in 1..(Len(sl) - 1) : sl[i][1] <= sl[i+1][1]
=============================================================================
