------------------------------ MODULE DenseOff ------------------------------
(***************************************************************************)
(* Operational model of the dense-time OFFLINE monitor                     *)
(* (rtamt/semantics/stl/dense_time/offline/ast_visitor.py, intersection.py)*)
(* transcribed function by function.  Every visitX is a pure function from *)
(* sample lists to a sample list:                                          *)
(*   OffIntersection   the merge of intersection.py: the main loop of the  *)
(*                     online merge (DenseOn!ILoop, same 13 cases) on the  *)
(*                     two lists extended to time +inf by their last value *)
(*   PastSweep         once[a,b] / historically[a,b]: forward sweep over   *)
(*                     output triples (the Insert step of DenseOn), first  *)
(*                     triple (0, t0 + a, -inf/+inf), last triple open     *)
(*   FutSweep          eventually[a,b] / always[a,b]: the mirrored         *)
(*                     backward sweep, result clipped at time 0            *)
(*   since / until     by the `split` merge and a forward / backward fold  *)
(*   since[a,b], until[a,b]  as the compositions the code uses             *)
(* OffC(p, W, S) is evaluate() of a whole specification.                   *)
(* Theorem checked by TLC (DenseOffMC): for signals that begin at time 0   *)
(* the result is monotone, starts at 0 and denotes Dense!SigC on the       *)
(* domain (property C04).  For signals that begin later it does not        *)
(* (finding F-04b: first triple and clipping are tied to time 0).          *)
(***************************************************************************)
EXTENDS DenseOn

TSub(t, d) == IF t >= PInf THEN PInf ELSE t - d
ExtInf(sl) == IF sl # <<>> /\ LastE(sl)[1] < PInf THEN Append(sl, <<PInf, LastE(sl)[2]>>) ELSE sl

OffIntersection(in1, in2, m, S) ==
  IF in1 = <<>> \/ in2 = <<>> THEN [err |-> FALSE, out |-> <<>>]
  ELSE LET r == ILoop(ExtInf(in1), ExtInf(in2), <<>>, <<>>, m, S) IN [err |-> r.err, out |-> r.out]

\* forward fold of once / historically (untimed), then the merge of equal values
RECURSIVE RunF(_, _, _, _, _)
RunF(sl, i, acc, res, isMax) ==
  IF i > Len(sl) THEN res
  ELSE LET v == IF isMax THEN Max2(sl[i][2], acc) ELSE Min2(sl[i][2], acc) IN RunF(sl, i + 1, v, Append(res, <<sl[i][1], v>>), isMax)
OffRunPast(sl, isMax) == MergeEq(RunF(sl, 1, IF isMax THEN NInf ELSE PInf, <<>>, isMax), 1, NaNV, <<>>)

\* backward fold of eventually / always / until: `if value == next and i < len - 2: pop(0)` before insert(0, ..)
\* k is the 1-based position; res is the list built so far (for positions k+1 .. n)
RECURSIVE BackIns(_, _, _, _, _)
BackIns(ts, vals, k, nxt, res) ==      \* vals[k]: value computed for position k, nxt: value at k + 1 (NaNV for k = n)
  IF k < 1 THEN res
  ELSE LET n == Len(ts)
           res1 == IF vals[k] = nxt /\ k <= n - 2 THEN Tail(res) ELSE res IN
       BackIns(ts, vals, k - 1, vals[k], <<<<ts[k], vals[k]>>>> \o res1)

RECURSIVE BackAcc(_, _, _, _, _)
BackAcc(sl, k, acc, vals, isMax) ==     \* running max / min from the right
  IF k < 1 THEN vals
  ELSE LET v == IF isMax THEN Max2(sl[k][2], acc) ELSE Min2(sl[k][2], acc) IN BackAcc(sl, k - 1, v, [vals EXCEPT ![k] = v], isMax)
OffRunFut(sl, isMax) ==
  IF sl = <<>> THEN <<>>
  ELSE LET vals == BackAcc(sl, Len(sl), IF isMax THEN NInf ELSE PInf, [k \in 1..Len(sl) |-> 0], isMax) IN
       BackIns([k \in 1..Len(sl) |-> sl[k][1]], vals, Len(sl), NaNV, <<>>)

\* since_operation / until_operation
RECURSIVE SinceF(_, _, _, _)
SinceF(io, i, pv, res) ==
  IF i > Len(io) THEN res
  ELSE LET v == Max2(Min2(io[i][2][1], io[i][2][2]), Min2(io[i][2][1], pv)) IN
       SinceF(io, i + 1, v, IF i = 1 \/ v # pv \/ i = Len(io) THEN Append(res, <<io[i][1], v>>) ELSE res)
OffSince(l, r, S) ==
  LET x == OffIntersection(l, r, "split", S) IN
  IF x.err THEN x ELSE [err |-> FALSE, out |-> SinceF(x.out, 1, NInf, <<>>)]

RECURSIVE UntilAcc(_, _, _, _)
UntilAcc(io, k, nx, vals) ==
  IF k < 1 THEN vals
  ELSE LET v == Max2(Min2(io[k][2][1], io[k][2][2]), Min2(io[k][2][1], nx)) IN UntilAcc(io, k - 1, v, [vals EXCEPT ![k] = v])
OffUntil(l, r, S) ==
  LET x == OffIntersection(l, r, "split", S) IN
  IF x.err THEN x
  ELSE IF x.out = <<>> THEN [err |-> FALSE, out |-> <<>>]
  ELSE LET io == x.out
           vals == UntilAcc(io, Len(io), NInf, [k \in 1..Len(io) |-> 0]) IN
       \* (the code compares with `next`, initially -inf, not nan)
       [err |-> FALSE, out |-> BackIns([k \in 1..Len(io) |-> io[k][1]], vals, Len(io), NInf, <<>>)]

\* once_timed_operation / historically_timed_operation
RECURSIVE PastFeed(_, _, _, _, _, _)
PastFeed(kind, a, b, out, sl, i) ==
  IF i > Len(sl) THEN [err |-> FALSE, out |-> out]
  ELSE
    LET out1 == IF i = 1 /\ a > 0 THEN Append(out, <<0, TAdd(sl[1][1], a), UnitOf(kind)>>) ELSE out
        tb == IF i < Len(sl) THEN <<TAdd(sl[i][1], a), TAdd(sl[i + 1][1], b), sl[i][2]>> ELSE <<TAdd(sl[i][1], a), PInf, sl[i][2]>>
        r == Insert(kind, out1, tb) IN
    IF r.err THEN r ELSE PastFeed(kind, a, b, r.out, sl, i + 1)
Triples2Samples(out) == MergeEq([i \in 1..Len(out) |-> <<out[i][1], out[i][3]>>], 1, NaNV, <<>>)
PastSweep(kind, a, b, sl) ==
  LET f == PastFeed(kind, a, b, <<>>, sl, 1) IN
  IF f.err THEN [err |-> TRUE, out |-> <<>>] ELSE [err |-> FALSE, out |-> Triples2Samples(f.out)]

\* eventually_timed_operation / always_timed_operation: backward, triples inserted at the front
FWorse(kind, x, y) == IF kind = "evT" THEN x < y ELSE x > y
RECURSIVE FPop(_, _, _)
FPop(kind, out, b) ==
  IF out = <<>> THEN [err |-> TRUE, out |-> <<>>]
  ELSE LET a == out[1] IN
       IF FWorse(kind, a[3], b[3]) /\ b[2] > a[2] THEN FPop(kind, Tail(out), b) ELSE [err |-> FALSE, out |-> out]
FInsert(kind, out, b) ==
  IF out = <<>> THEN [err |-> FALSE, out |-> <<b>>]
  ELSE LET r == FPop(kind, out, b) IN
    IF r.err THEN r
    ELSE LET o == r.out
             a == o[1] IN
      [err |-> FALSE, out |->
         IF ~Intersects(a[1], a[2], b[1], b[2]) THEN <<b>> \o o
         ELSE IF ~FWorse(kind, a[3], b[3]) THEN <<<<b[1], a[1], b[3]>>>> \o o
         ELSE LET o1 == Tail(o)
                  o2 == IF a[2] > b[2] THEN <<<<b[2], a[2], a[3]>>>> \o o1 ELSE o1 IN
              <<b>> \o o2]
RECURSIVE FutFeed(_, _, _, _, _, _)
FutFeed(kind, a, b, out, sl, i) ==       \* i = n down to 1
  IF i < 1 THEN [err |-> FALSE, out |-> out]
  ELSE
    LET tb == IF i = Len(sl) THEN <<TSub(sl[i][1], b), PInf, sl[i][2]>> ELSE <<TSub(sl[i][1], b), TSub(sl[i + 1][1], a), sl[i][2]>>
        r == FInsert(kind, out, tb) IN
    IF r.err THEN r ELSE FutFeed(kind, a, b, r.out, sl, i - 1)
RECURSIVE Clip0(_, _, _)
Clip0(out, i, acc) ==
  IF i > Len(out) THEN acc
  ELSE Clip0(out, i + 1, IF out[i][1] <= 0 /\ out[i][2] > 0 THEN Append(acc, <<0, out[i][3]>>)
                          ELSE IF out[i][1] > 0 THEN Append(acc, <<out[i][1], out[i][3]>>) ELSE acc)
FutSweep(kind, a, b, sl) ==
  LET f == FutFeed(kind, a, b, <<>>, sl, Len(sl)) IN
  IF f.err THEN [err |-> TRUE, out |-> <<>>] ELSE [err |-> FALSE, out |-> Clip0(f.out, 1, <<>>)]

OffPred(p, l, r, S, Md) ==
  LET x == OffIntersection(l, r, "sub", S) IN
  IF x.err THEN x
  ELSE LET base == MergeEq(MapSeq(x.out, LAMBDA v : CmpMap(p.cmp, v)), 1, NaNV, <<>>) IN
       [err |-> FALSE, out |-> IF Insensitive(p, Md) THEN MapSeq(base, LAMBDA v : IAVal(Md, p.cmp, v)) ELSE base]

OfflineCOK(p) == ~HasOp(p, {"next", "snext", "prev", "sprev", "rise", "fall", "precT", "unless", "unlessT", "sqrt", "exp", "ln", "pow", "log"})

RECURSIVE OffCM(_, _, _, _)
OffCM(p, W, S, Md) ==
  LET E == [err |-> TRUE, out |-> <<>>]
      OK(o) == [err |-> FALSE, out |-> o] IN
  IF p.op = "var" THEN OK(W[p.v])
  ELSE IF p.op = "const" THEN OK(<<<<0, p.c>>, <<PInf, p.c>>>>)
  ELSE IF p.op \in Un1 THEN
    LET c == OffCM(p.l, W, S, Md) IN
    IF c.err THEN c
    ELSE CASE p.op \in {"not", "neg"} -> OK(MapSeq(c.out, Neg))
           [] p.op = "abs"  -> OK(MapSeq(c.out, Abs))
           [] p.op = "once" -> OK(OffRunPast(c.out, TRUE))
           [] p.op = "hist" -> OK(OffRunPast(c.out, FALSE))
           [] p.op = "ev"   -> OK(OffRunFut(c.out, TRUE))
           [] p.op = "alw"  -> OK(OffRunFut(c.out, FALSE))
           [] p.op \in {"onceT", "histT"} -> PastSweep(p.op, p.a, p.b, c.out)
           [] p.op \in {"evT", "alwT"} -> FutSweep(p.op, p.a, p.b, c.out)
           [] OTHER -> E
  ELSE
    LET cl == OffCM(p.l, W, S, Md)
        cr == OffCM(p.r, W, S, Md) IN
    IF cl.err \/ cr.err THEN E
    ELSE CASE p.op = "pred"  -> OffPred(p, cl.out, cr.out, S, Md)
           [] p.op = "since" -> OffSince(cl.out, cr.out, S)
           [] p.op = "until" -> OffUntil(cl.out, cr.out, S)
           [] p.op = "sinceT" ->
                LET o1 == PastSweep("onceT", p.a, p.b, cr.out)
                    o2 == OffSince(cl.out, cr.out, S) IN
                IF o1.err \/ o2.err THEN E
                ELSE IF p.a > 0 THEN
                  LET o3 == PastSweep("histT", 0, p.a, o2.out) IN
                  IF o3.err THEN E ELSE OffIntersection(o1.out, o3.out, "and", S)
                ELSE OffIntersection(o1.out, o2.out, "and", S)
           [] p.op = "untilT" ->
                LET o1 == FutSweep("evT", p.a, p.b, cr.out)
                    o2 == OffUntil(cl.out, cr.out, S) IN
                IF o1.err \/ o2.err THEN E
                ELSE IF p.a > 0 THEN
                  LET o3 == FutSweep("alwT", 0, p.a, o2.out) IN
                  IF o3.err THEN E ELSE OffIntersection(o1.out, o3.out, "and", S)
                ELSE OffIntersection(o1.out, o2.out, "and", S)
           [] p.op \in {"and", "or", "implies", "iff", "xor", "add", "sub", "mul", "div"} -> OffIntersection(cl.out, cr.out, p.op, S)
           [] OTHER -> E

OffC(p, W, S) == OffCM(p, W, S, StdMode)

\* property C04 for one (formula, signals): monotone, starts at the domain begin, denotes SigC on the domain
OffDenotesM(p, W, vs, S, Md) ==
  LET r == OffCM(p, W, S, Md)
      d0 == DomBegin(W, vs)
      d1 == DomEnd(W, vs)
      dS == d1 + Settle(p)
      n == dS - d0 + 1
      \* (SigOnDomain = SigC on the cells of the domain when the signals begin together: DenseOffMC!SigDIsSigC)
      R == IF SameStart(W, vs) THEN SigC(p, CellsOf(W, vs, d0, dS), n, S, Md) ELSE SigOnDomain(p, W, vs, dS, S, Md) IN
  /\ ~r.err /\ r.out # <<>> /\ Monotone(r.out) /\ FirstT(r.out) = d0
  /\ \A t \in d0..d1 : StepAt(r.out, t) = R[t - d0 + 1]
OffDenotes(p, W, vs, S) == OffDenotesM(p, W, vs, S, [sem |-> "standard", io |-> [v \in vs |-> "output"]])
=============================================================================
