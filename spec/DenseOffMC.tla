----------------------------- MODULE DenseOffMC -----------------------------
(***************************************************************************)
(* Property C04 on the operational model of the dense-time offline monitor *)
(* (DenseOff!OffC): for every formula of a universe and every pair of      *)
(* short signals (independent break-points, common first time-stamp T0 and *)
(* common last time-stamp) the result of evaluate() is monotone, starts at *)
(* the domain begin and denotes Dense!SigC on the whole domain.            *)
(* One state per (formula, signals).                                        *)
(***************************************************************************)
EXTENDS DenseOff, SequencesExt, TLC
CONSTANTS Formulas, MaxT, MaxN, Vals, SS, T0,
          Starts,        \* a signal begins at T0 + s for some s in Starts (signals that begin at different times: Dense!SigD)
          Sems, IOs      \* semantics and IO classes explored (interface-aware variants, property C06)
VARIABLES phi, W, ready, md
vars == <<phi, W, ready, md>>

SigOf(S, st, e, vs) == LET ts == <<st>> \o SetToSortSeq(S, <) \o <<e>> IN [i \in 1..Len(ts) |-> <<T0 + ts[i], vs[i]>>]
Signals(e) == UNION {UNION {{SigOf(S, st, e, vs) : vs \in [1..(Cardinality(S) + 2) -> Vals]} :
                            S \in {S \in SUBSET ((st + 1)..(e - 1)) : Cardinality(S) <= MaxN - 2}} :
                     st \in {st \in Starts : st < e}}
\* (the signals are chosen by a transition rather than in Init so that TLC's workers share the enumeration)
Init == phi \in Formulas /\ W = <<>> /\ ready = FALSE
        /\ \E sm \in Sems : \E io \in [VarsOf(phi) -> IOs] : md = [sem |-> sm, io |-> io]
Next == /\ ~ready
        /\ \E e \in 1..MaxT : W' \in [VarsOf(phi) -> Signals(e)]
        /\ ready' = TRUE /\ UNCHANGED <<phi, md>>
Spec == Init /\ [][Next]_vars
\* (a bounded operator over a signal that does not begin at time 0 is finding F-04b: T0 = 1 reproduces it; when several
\*  begins are explored the bounded operators over a late signal are left out, so that everything else is decided)
LateTimed == Starts # {0} /\ HasOp(phi, Timed) /\ \E v \in VarsOf(phi) : FirstT(W[v]) > 0
Denotes == ready => (LateTimed \/ OffDenotesM(phi, W, VarsOf(phi), SS, md))
\* when the signals begin together, evaluating every sub-formula on its own domain is evaluating it on the common domain
SigDIsSigC == (ready /\ SameStart(W, VarsOf(phi))) =>
  LET vs == VarsOf(phi) d0 == DomBegin(W, vs) dS == DomEnd(W, vs) + Settle(phi) IN
  SigOnDomain(phi, W, vs, dS, SS, md) = SigC(phi, CellsOf(W, vs, d0, dS), dS - d0 + 1, SS, md)
=============================================================================
