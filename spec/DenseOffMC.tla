----------------------------- MODULE DenseOffMC -----------------------------
(***************************************************************************)
(* Property C04 on the operational model of the dense-time offline monitor *)
(* (DenseOff!OffC): for every formula of a universe and every pair of      *)
(* short signals (independent break-points, common first time-stamp T0 and *)
(* common last time-stamp) the result of evaluate() is monotone, starts at *)
(* the domain begin and denotes Dense!SigC on the whole domain.            *)
(* One state per (formula, signals).                                        *)
(***************************************************************************)
EXTENDS DenseOff, SequencesExt, TLC
CONSTANTS Formulas, MaxT, MaxN, Vals, SS, T0,
          Sems, IOs      \* semantics and IO classes explored (interface-aware variants, property C06)
VARIABLES phi, W, ready, md
vars == <<phi, W, ready, md>>

SigOf(S, e, vs) == LET ts == <<0>> \o SetToSortSeq(S, <) \o <<e>> IN [i \in 1..Len(ts) |-> <<T0 + ts[i], vs[i]>>]
Signals(e) == UNION {{SigOf(S, e, vs) : vs \in [1..(Cardinality(S) + 2) -> Vals]} :
                     S \in {S \in SUBSET (1..(e - 1)) : Cardinality(S) <= MaxN - 2}}
\* (the signals are chosen by a transition rather than in Init so that TLC's workers share the enumeration)
Init == phi \in Formulas /\ W = <<>> /\ ready = FALSE
        /\ \E sm \in Sems : \E io \in [VarsOf(phi) -> IOs] : md = [sem |-> sm, io |-> io]
Next == /\ ~ready
        /\ \E e \in 1..MaxT : W' \in [VarsOf(phi) -> Signals(e)]
        /\ ready' = TRUE /\ UNCHANGED <<phi, md>>
Spec == Init /\ [][Next]_vars
Denotes == ready => OffDenotesM(phi, W, VarsOf(phi), SS, md)
=============================================================================
