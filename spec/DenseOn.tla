------------------------------ MODULE DenseOn ------------------------------
(***************************************************************************)
(* Operational model of the dense-time ONLINE operators                    *)
(* (rtamt/semantics/stl/dense_time/online/*_operation.py, intersection.py).*)
(*                                                                         *)
(* A stream between two operators is a sequence of batches; a batch is a   *)
(* list of samples <<time, value>> with increasing times.  The samples fed *)
(* so far denote a step function that is known on [first time, last time]: *)
(* value v_i on [t_i, t_i+1) and v_n at the point t_n (its hold is not     *)
(* known yet).  An operator may repeat, as the first sample of a batch,    *)
(* the last sample of its previous batch.                                  *)
(*                                                                         *)
(* Part 1 below: once[a,b] / historically[a,b]; Part 2: the merge of two   *)
(* streams (intersection.py) and the binary operators built on it, the     *)
(* predicate (with the interface-aware variants); Part 3: stateless maps,   *)
(* untimed once / historically / since, since[a,b]; Part 4: one update()   *)
(* of a whole specification (UpdateCM) and the contract of property C05.   *)
(*                                                                         *)
(* Part 1: once[a,b] / historically[a,b]  (once_timed_operation.py,        *)
(* historically_timed_operation.py), transcribed statement by statement.   *)
(* The memory of the operator is                                           *)
(*    prev : pending output triples <<from, to, value>> beyond the         *)
(*           knowledge frontier                                            *)
(*    rs   : residual_start, the time of the last sample consumed          *)
(*           (-1: none yet; the code uses -inf / +inf)                      *)
(*                                                                         *)
(* Dev is a set of deviations of the code as first read:                   *)
(*   "dropPending"  F-05a  the pending triple that starts exactly at rs is *)
(*                         emitted but not carried over (rs > b0, not >=)  *)
(*   "noDedupe"     F-05a  a repeated first sample is consumed again       *)
(*   "constEveryUpdate" F-05b  a constant re-emits [[0,c],[inf,c]] at      *)
(*                         every update                                    *)
(***************************************************************************)
EXTENDS Dense

NaNV == 1999999996
Front(s) == SubSeq(s, 1, Len(s) - 1)
LastE(s) == s[Len(s)]

UnitOf(kind) == IF kind = "onceT" THEN NInf ELSE PInf
\* a[2] < b[2] for once (a maximum is kept), a[2] > b[2] for historically
Worse(kind, x, y) == IF kind = "onceT" THEN x < y ELSE x > y
Intersects(x1, x2, y1, y2) == x1 <= y2 /\ y1 <= x2

InitTimed == [prev |-> <<>>, rs |-> -1]
\* times: the constant signal [[0, c], [inf, c]] carries the time-stamp +inf (PInf); inf + d = inf
TAdd(t, d) == IF t >= PInf THEN PInf ELSE t + d

\* while (a[2] < b[2]) and (b[0] < a[0]): del out[-1]; a = out[-1]        (IndexError when out runs empty)
RECURSIVE PopLoop(_, _, _)
PopLoop(kind, out, b) ==
  IF out = <<>> THEN [err |-> TRUE, out |-> <<>>]
  ELSE LET a == LastE(out) IN
       IF Worse(kind, a[3], b[3]) /\ b[1] < a[1] THEN PopLoop(kind, Front(out), b)
       ELSE [err |-> FALSE, out |-> out]

\* the body of the main loop for one new triple b
Insert(kind, out, b) ==
  IF out = <<>> THEN [err |-> FALSE, out |-> <<b>>]
  ELSE LET r == PopLoop(kind, out, b) IN
    IF r.err THEN r
    ELSE LET o == r.out
             a == LastE(o) IN
      [err |-> FALSE, out |->
         IF ~Intersects(a[1], a[2], b[1], b[2]) THEN Append(o, b)
         ELSE IF ~Worse(kind, a[3], b[3]) THEN Append(o, <<a[2], b[2], b[3]>>)
         ELSE LET o1 == Front(o)
                  o2 == IF b[1] > a[1] THEN Append(o1, <<a[1], b[1], a[3]>>) ELSE o1 IN
              Append(o2, b)]

\* i = 1 .. len(sample)
RECURSIVE Feed(_, _, _, _, _, _)
Feed(kind, a, b, out, sample, i) ==
  IF i > Len(sample) THEN [err |-> FALSE, out |-> out]
  ELSE
    LET out1 == IF i = 1 /\ sample[1][1] = 0 /\ a > 0 THEN Append(out, <<0, TAdd(sample[1][1], a), UnitOf(kind)>>) ELSE out
        tb == IF i = Len(sample) THEN <<TAdd(sample[i][1], a), TAdd(sample[i][1], b), sample[i][2]>>
              ELSE <<TAdd(sample[i][1], a), TAdd(sample[i + 1][1], b), sample[i][2]>>
        r == Insert(kind, out1, tb) IN
    IF r.err THEN r ELSE Feed(kind, a, b, r.out, sample, i + 1)

\* the emission loop: triples up to the frontier rs are emitted, the rest is carried over
RECURSIVE Emit(_, _, _, _, _, _, _, _)
Emit(out, i, rs, pv, res, carry, last, Dev) ==
  IF i > Len(out) THEN [res |-> res, carry |-> carry, last |-> last]
  ELSE
    LET t == out[i]
        res1 == IF t[3] # pv \/ i = Len(out) THEN Append(res, <<t[1], t[3]>>) ELSE res IN
    IF rs >= t[2] THEN Emit(out, i + 1, rs, t[3], res1, carry, <<t[1], t[3]>>, Dev)
    ELSE IF t[1] <= rs /\ rs < t[2] THEN
      IF "dropPending" \in Dev /\ rs = t[1]
      THEN Emit(out, i + 1, rs, t[3], res1, carry, <<t[1], t[3]>>, Dev)
      ELSE Emit(out, i + 1, rs, t[3], res1, Append(carry, <<rs, t[2], t[3]>>), <<rs, t[3]>>, Dev)
    ELSE Emit(out, i + 1, rs, t[3], res, Append(carry, t), last, Dev)

FinishRes(res, last) ==
  IF last = <<>> THEN res
  ELSE IF res = <<>> THEN <<last>>
  ELSE IF last[1] > LastE(res)[1] THEN Append(res, last) ELSE res

\* OnceTimedOperation.update / HistoricallyTimedOperation.update
TimedUpd(kind, a, b, st, sample0, Dev) ==
  LET sample == IF "noDedupe" \notin Dev /\ sample0 # <<>> /\ sample0[1][1] = st.rs THEN Tail(sample0) ELSE sample0
      rs == IF sample # <<>> THEN LastE(sample)[1] ELSE st.rs
      out0 == IF sample # <<>> /\ st.prev # <<>>
              THEN Append(Front(st.prev), <<LastE(st.prev)[1], TAdd(sample[1][1], b), LastE(st.prev)[3]>>)
              ELSE st.prev
      f == Feed(kind, a, b, out0, sample, 1) IN
  IF f.err THEN [err |-> TRUE, ret |-> <<>>, st |-> st]
  ELSE LET e == Emit(f.out, 1, rs, NaNV, <<>>, <<>>, <<>>, Dev) IN
       [err |-> FALSE, ret |-> FinishRes(e.res, e.last), st |-> [prev |-> e.carry, rs |-> rs]]

---------------------------------------------------------------------------
\* What the operator must compute: the dense-time semantics of Dense!SigC on the whole signal.  sig is a sample
\* list; cells start at its first time-stamp and are extended by b beyond its end (Dense!Settle).
RefCells(kind, a, b, sig) ==
  LET d0 == FirstT(sig)
      d1 == LastT(sig) + b
      n == d1 - d0 + 1
      C == CellsOf([x |-> sig], {"x"}, d0, d1) IN
  SigC([op |-> kind, l |-> [op |-> "var", v |-> "x"], a |-> a, b |-> b], C, n, 1, [sem |-> "standard", io |-> [x |-> "output"]])

\* emitted (concatenation of the returned batches) read as a step function agrees with the semantics wherever it is defined
AgreesWith(emitted, kind, a, b, sig) ==
  emitted = <<>> \/
  LET R == RefCells(kind, a, b, sig)
      n == Len(R)
      d0 == FirstT(sig) IN
  \A t \in FirstT(emitted)..LastT(emitted) : StepAt(emitted, t) = R[Clip(t - d0 + 1, n)]

StrictlyIncreasing(sl) == \A i \in 1..(Len(sl) - 1) : sl[i][1] < sl[i + 1][1]
---------------------------------------------------------------------------
(***************************************************************************)
(* Part 2: intersection.py - the merge of two sample streams by the 13     *)
(* Allen relations between their first segments - and the binary operator  *)
(* template built on it (and/or/implies/iff/xor, + - * /, the subtraction  *)
(* inside a predicate).  Memory of a binary operator:                      *)
(*    lb, rb : unconsumed samples of the left / right operand              *)
(*    lo     : last sample it returned (to drop a repeated first sample)   *)
(***************************************************************************)
Meth(m, x, y, S) ==
  CASE m = "and"     -> Min2(x, y)
    [] m = "or"      -> Max2(x, y)
    [] m = "implies" -> Max2(Neg(x), y)
    [] m = "iff"     -> Neg(Abs(Sub(x, y)))
    [] m = "xor"     -> Abs(Sub(x, y))
    [] m = "add"     -> Add(x, y)
    [] m = "sub"     -> Sub(x, y)
    [] m = "mul"     -> Mul(x, y, S)
    [] m = "div"     -> Div(x, y, S)
    [] m = "split"   -> <<x, y>>          \* (offline since / until: the pair of operand values)
    [] OTHER         -> Undef

\* _append: a sample is appended only if its value differs from the previous one
AppendV(out, item) == IF out = <<>> \/ LastE(out)[2] # item[2] THEN Append(out, item) ELSE out

RECURSIVE ILoop(_, _, _, _, _, _)
ILoop(s1, s2, out, last, m, S) ==
  IF Len(s1) <= 1 \/ Len(s2) <= 1 THEN [err |-> FALSE, s1 |-> s1, s2 |-> s2, out |-> out, last |-> last]
  ELSE
    LET p1 == s1[1]  c1 == s1[2]  p2 == s2[1]  c2 == s2[2]
        pp == Meth(m, p1[2], p2[2], S)  cp == Meth(m, c1[2], p2[2], S)
        pc == Meth(m, p1[2], c2[2], S)  cc == Meth(m, c1[2], c2[2], S) IN
    \* 1: interval 1 precedes interval 2
    IF c1[1] < p2[1] THEN ILoop(Tail(s1), s2, out, <<>>, m, S)
    \* 2: 1 meets 2
    ELSE IF p1[1] < c1[1] /\ c1[1] = p2[1] /\ p2[1] < c2[1] THEN ILoop(Tail(s1), s2, out, <<p2[1], cp>>, m, S)
    \* 3: 1 overlaps 2
    ELSE IF p1[1] < p2[1] /\ p2[1] < c1[1] /\ c1[1] < c2[1] THEN ILoop(Tail(s1), s2, AppendV(out, <<p2[1], pp>>), <<c1[1], cp>>, m, S)
    \* 4: 1 is finished by 2
    ELSE IF p1[1] < p2[1] /\ p2[1] < c1[1] /\ c1[1] = c2[1] THEN ILoop(Tail(s1), s2, AppendV(out, <<p2[1], pp>>), <<c2[1], cc>>, m, S)
    \* 5: 1 finishes 2
    ELSE IF p2[1] < p1[1] /\ p1[1] < c1[1] /\ c1[1] = c2[1] THEN ILoop(Tail(s1), s2, AppendV(out, <<p1[1], pp>>), <<c2[1], cc>>, m, S)
    \* 6: 1 contains 2
    ELSE IF p1[1] < p2[1] /\ p2[1] < c2[1] /\ c2[1] < c1[1] THEN ILoop(s1, Tail(s2), AppendV(out, <<p2[1], pp>>), <<c2[1], pc>>, m, S)
    \* 7: 1 is started by 2
    ELSE IF p1[1] = p2[1] /\ p2[1] < c2[1] /\ c2[1] < c1[1] THEN ILoop(s1, Tail(s2), AppendV(out, <<p2[1], pp>>), <<c2[1], pc>>, m, S)
    \* 8: 1 equals 2
    ELSE IF p1[1] = p2[1] /\ p2[1] < c2[1] /\ c2[1] = c1[1] THEN ILoop(Tail(s1), s2, AppendV(out, <<p2[1], pp>>), <<c2[1], cc>>, m, S)
    \* 9: 1 starts 2
    ELSE IF p1[1] = p2[1] /\ p2[1] < c1[1] /\ c1[1] < c2[1] THEN ILoop(Tail(s1), s2, AppendV(out, <<p1[1], pp>>), <<c1[1], cp>>, m, S)
    \* 10: 1 is contained in 2
    ELSE IF p2[1] < p1[1] /\ p1[1] < c1[1] /\ c1[1] < c2[1] THEN ILoop(Tail(s1), s2, AppendV(out, <<p1[1], pp>>), <<c1[1], cp>>, m, S)
    \* 11: 1 is met by 2
    ELSE IF p2[1] < c2[1] /\ c2[1] = p1[1] /\ p1[1] < c1[1] THEN ILoop(s1, Tail(s2), out, <<c2[1], pc>>, m, S)
    \* 12: 1 is overlapped by 2
    ELSE IF p2[1] < p1[1] /\ p1[1] < c2[1] /\ c2[1] < c1[1] THEN ILoop(s1, Tail(s2), AppendV(out, <<p1[1], pp>>), <<c2[1], pc>>, m, S)
    \* 13: 1 is preceded by 2
    ELSE IF p1[1] > c2[1] THEN ILoop(s1, Tail(s2), out, last, m, S)
    \* RTAMTException('Unexpected case in the intersection')
    ELSE [err |-> TRUE, s1 |-> s1, s2 |-> s2, out |-> out, last |-> last]

\* the two loops after the main loop: one stream is down to its last sample q, the other (s) still has segments
RECURSIVE ITail(_, _, _, _, _, _, _)
ITail(s, q, out, last, m, S, left) ==
  IF Len(s) <= 1 THEN [out |-> out, last |-> last]
  ELSE
    LET p == s[1]
        c == s[2]
        f(x) == IF left THEN Meth(m, x[2], q[2], S) ELSE Meth(m, q[2], x[2], S) IN
    IF p[1] > q[1] THEN [out |-> out, last |-> last]
    ELSE IF p[1] = q[1] THEN [out |-> out, last |-> <<q[1], f(p)>>]
    ELSE IF q[1] < c[1] THEN ITail(Tail(s), q, AppendV(out, <<q[1], f(p)>>), <<q[1], f(p)>>, m, S, left)
    ELSE IF q[1] = c[1] THEN ITail(Tail(s), q, AppendV(out, <<q[1], f(c)>>), <<q[1], f(c)>>, m, S, left)
    ELSE ITail(Tail(s), q, out, <<>>, m, S, left)

Intersection(in1, in2, m, S) ==
  IF in1 = <<>> \/ in2 = <<>> THEN [err |-> FALSE, out |-> <<>>, last |-> <<>>, r1 |-> in1, r2 |-> in2]
  ELSE
    LET l0 == IF in1[1][1] = in2[1][1] THEN <<in1[1][1], Meth(m, in1[1][2], in2[1][2], S)>> ELSE <<>>
        r == ILoop(in1, in2, <<>>, l0, m, S) IN
    IF r.err THEN [err |-> TRUE, out |-> <<>>, last |-> <<>>, r1 |-> in1, r2 |-> in2]
    ELSE
      LET t == IF Len(r.s1) > 1 THEN ITail(r.s1, r.s2[1], r.out, r.last, m, S, TRUE)
               ELSE IF Len(r.s2) > 1 THEN ITail(r.s2, r.s1[1], r.out, r.last, m, S, FALSE)
               ELSE [out |-> r.out, last |-> r.last] IN
      [err |-> FALSE, out |-> t.out, last |-> t.last, r1 |-> r.s1, r2 |-> r.s2]

InitBin == [lb |-> <<>>, rb |-> <<>>, lo |-> <<>>]
Buffer(buf, new) == IF buf # <<>> /\ new # <<>> /\ LastE(buf)[1] = new[1][1] THEN buf \o Tail(new) ELSE buf \o new

\* AndOperation.update and its siblings
BinUpd(m, st, l, r, S) ==
  LET x == Intersection(Buffer(st.lb, l), Buffer(st.rb, r), m, S) IN
  IF x.err THEN [err |-> TRUE, ret |-> <<>>, st |-> st]
  ELSE
    LET res1 == IF x.last = <<>> THEN x.out
                ELSE IF x.out = <<>> THEN <<x.last>>
                ELSE IF x.last[1] > LastE(x.out)[1] THEN Append(x.out, x.last) ELSE x.out
        res2 == IF st.lo # <<>> /\ res1 # <<>> /\ st.lo = res1[1] THEN Tail(res1) ELSE res1 IN
    [err |-> FALSE, ret |-> res2,
     st |-> [lb |-> x.r1, rb |-> x.r2, lo |-> IF res2 # <<>> THEN LastE(res2) ELSE st.lo]]

\* PredicateOperation.update (standard semantics): subtraction, then the comparison's sign convention
CmpMap(cmp, v) == CASE cmp = "eq" -> Neg(Abs(v)) [] cmp = "ne" -> Abs(v) [] cmp \in {"le", "lt"} -> Neg(v) [] OTHER -> v
MapSeq(sl, F(_)) == [i \in 1..Len(sl) |-> <<sl[i][1], F(sl[i][2])>>]
\* append when the value changes, or for the last element (`if v != prev or i == len - 1`)
RECURSIVE MergeEq(_, _, _, _)
MergeEq(sl, i, pv, acc) ==
  IF i > Len(sl) THEN acc
  ELSE MergeEq(sl, i + 1, sl[i][2], IF sl[i][2] # pv \/ i = Len(sl) THEN Append(acc, sl[i]) ELSE acc)
\* interface-aware semantics (iastl/dense_time/*): a predicate that mentions no variable of the relevant class contributes
\* +-inf (robustness variants) or 0 (vacuity variants) according to its Boolean verdict, which the code reads off the sign
\* of the numeric robustness; the samples are those at which that robustness changes
SatOfRob(cmp, rob) == IF cmp \in {"ge", "le", "eq"} THEN rob >= 0 ELSE rob > 0
IAVal(Md, cmp, rob) == IF Md.sem \in {"out_vac", "in_vac"} THEN 0 ELSE IF SatOfRob(cmp, rob) THEN PInf ELSE NInf
PredUpd(p, st, l, r, S, Md) ==
  LET x == BinUpd("sub", st, l, r, S) IN
  IF x.err THEN x
  ELSE LET base == MapSeq(x.ret, LAMBDA v : CmpMap(p.cmp, v)) IN
       [err |-> FALSE, st |-> x.st,
        ret |-> IF Insensitive(p, Md) THEN MapSeq(MergeEq(base, 1, NaNV, <<>>), LAMBDA v : IAVal(Md, p.cmp, v)) ELSE base]

---------------------------------------------------------------------------
(* Part 3: the stateless maps, untimed once / historically, untimed since (since_operation.py) *)
RECURSIVE RunFoldC(_, _, _, _, _)
RunFoldC(sl, i, pv, acc, isMax) ==
  IF i > Len(sl) THEN [ret |-> acc, prev |-> pv]
  ELSE LET v == IF isMax THEN Max2(sl[i][2], pv) ELSE Min2(sl[i][2], pv) IN
       RunFoldC(sl, i + 1, v, Append(acc, <<sl[i][1], v>>), isMax)

InitSince == [lb |-> <<>>, rb |-> <<>>, prev |-> NInf, last |-> <<>>]
RECURSIVE SinceLoop(_, _, _, _, _)
SinceLoop(a, b, pv, last, res) ==
  IF Len(a) <= 1 \/ Len(b) <= 1 THEN [a |-> a, b |-> b, prev |-> pv, last |-> last, res |-> res]
  ELSE
    LET as == a[1][1]  ae == a[2][1]  bs == b[1][1]  be == b[2][1]
        av == a[1][2]  bv == b[1][2]  an == a[2][2]  bn == b[2][2]
        lastv == IF ae < be THEN Max2(Min2(an, bv), Min2(an, pv))
                 ELSE IF ae > be THEN Max2(Min2(av, bn), Min2(av, pv))
                 ELSE Max2(Min2(an, bn), Min2(an, pv))
        a1 == IF ae <= be THEN Tail(a) ELSE a
        b1 == IF ae >= be THEN Tail(b) ELSE b
        lo == IF as >= bs THEN as ELSE bs
        hi == IF ae <= be THEN ae ELSE be
        val == Max2(Min2(av, bv), Min2(av, pv)) IN
    IF lo < hi THEN SinceLoop(a1, b1, val, <<hi, lastv>>, Append(res, <<lo, val>>))
    ELSE SinceLoop(a1, b1, pv, last, res)

SinceUpd(st, l, r) ==
  LET x == SinceLoop(st.lb \o l, st.rb \o r, st.prev, st.last, <<>>) IN
  [err |-> FALSE, ret |-> x.res, st |-> [lb |-> x.a, rb |-> x.b, prev |-> x.prev, last |-> x.last]]

\* SinceTimedOperation: once[a,b](r) and historically[0,a](l since r)
InitSinceT == [once |-> InitTimed, since |-> InitSince, hist |-> InitTimed, andop |-> InitBin]
SinceTUpd(a, b, st, l, r, S, Dev) ==
  LET o1 == TimedUpd("onceT", a, b, st.once, r, Dev)
      o2 == SinceUpd(st.since, l, r)
      o3 == TimedUpd("histT", 0, a, st.hist, o2.ret, Dev) IN
  IF o1.err \/ o3.err THEN [err |-> TRUE, ret |-> <<>>, st |-> st]
  ELSE LET o4 == BinUpd("and", st.andop, o1.ret, o3.ret, S) IN
       IF o4.err THEN [err |-> TRUE, ret |-> <<>>, st |-> st]
       ELSE [err |-> FALSE, ret |-> o4.ret, st |-> [once |-> o1.st, since |-> o2.st, hist |-> o3.st, andop |-> o4.st]]

---------------------------------------------------------------------------
(***************************************************************************)
(* Part 4: one update() of a whole specification                           *)
(* (abstract_dense_time_online_interpreter.py, abstract_online_interpreter *)
(* .py): the operator memories are kept per distinct sub-formula (= per    *)
(* printed name), every distinct sub-formula is evaluated once per update  *)
(* (V: already visited), variables return their batch, a constant returns  *)
(* [[0, c], [inf, c]] at the first update only.                            *)
(***************************************************************************)
OnlineCOK(p) == ~HasOp(p, {"ev", "alw", "until", "evT", "alwT", "untilT", "next", "snext", "prev", "sprev", "rise", "fall",
                          "precT", "unless", "unlessT", "sqrt", "exp", "ln", "pow", "log"})
InitMemC(p) ==
  [q \in SubF(p) |->
     CASE q.op \in {"onceT", "histT"} -> InitTimed
       [] q.op = "once" -> [prev |-> NInf]
       [] q.op = "hist" -> [prev |-> PInf]
       [] q.op = "since" -> InitSince
       [] q.op = "sinceT" -> InitSinceT
       [] q.op = "const" -> [first |-> TRUE]
       [] q.op \in {"and", "or", "implies", "iff", "xor", "add", "sub", "mul", "div", "pred"} -> InitBin
       [] OTHER -> [none |-> TRUE]]

Done(p, M, V, out) == [M |-> M, V |-> [done |-> V.done \cup {p}, o |-> [V.o EXCEPT ![p] = out]], out |-> out, err |-> FALSE]
Failed(M, V) == [M |-> M, V |-> V, out |-> <<>>, err |-> TRUE]

RECURSIVE EvalC(_, _, _, _, _, _, _)
EvalC(p, M, V, batch, S, Dev, Md) ==
  IF p \in V.done THEN [M |-> M, V |-> V, out |-> V.o[p], err |-> FALSE]
  ELSE IF p.op = "var" THEN Done(p, M, V, batch[p.v])
  ELSE IF p.op = "const" THEN
    (IF M[p].first \/ "constEveryUpdate" \in Dev
     THEN Done(p, [M EXCEPT ![p] = [first |-> FALSE]], V, <<<<0, p.c>>, <<PInf, p.c>>>>)
     ELSE Done(p, M, V, <<>>))
  ELSE IF p.op \in Un1 THEN
    LET c == EvalC(p.l, M, V, batch, S, Dev, Md) IN
    IF c.err THEN c
    ELSE IF p.op \in {"not", "neg"} THEN Done(p, c.M, c.V, MapSeq(c.out, Neg))
    ELSE IF p.op = "abs" THEN Done(p, c.M, c.V, MapSeq(c.out, Abs))
    ELSE IF p.op \in {"once", "hist"} THEN
      LET r == RunFoldC(c.out, 1, c.M[p].prev, <<>>, p.op = "once") IN
      Done(p, [c.M EXCEPT ![p] = [prev |-> r.prev]], c.V, r.ret)
    ELSE IF p.op \in {"onceT", "histT"} THEN
      LET r == TimedUpd(p.op, p.a, p.b, c.M[p], c.out, Dev) IN
      IF r.err THEN Failed(c.M, c.V) ELSE Done(p, [c.M EXCEPT ![p] = r.st], c.V, r.ret)
    ELSE Failed(c.M, c.V)
  ELSE
    LET cl == EvalC(p.l, M, V, batch, S, Dev, Md) IN
    IF cl.err THEN cl
    ELSE
      LET cr == EvalC(p.r, cl.M, cl.V, batch, S, Dev, Md) IN
      IF cr.err THEN cr
      ELSE
        LET r == IF p.op = "pred" THEN PredUpd(p, cr.M[p], cl.out, cr.out, S, Md)
                 ELSE IF p.op = "since" THEN SinceUpd(cr.M[p], cl.out, cr.out)
                 ELSE IF p.op = "sinceT" THEN SinceTUpd(p.a, p.b, cr.M[p], cl.out, cr.out, S, Dev)
                 ELSE BinUpd(p.op, cr.M[p], cl.out, cr.out, S) IN
        IF r.err THEN Failed(cr.M, cr.V) ELSE Done(p, [cr.M EXCEPT ![p] = r.st], cr.V, r.ret)

\* spec.update(batches): batch is a function from the variables to sample lists
V0(p) == [done |-> {}, o |-> [q \in SubF(p) |-> <<>>]]
UpdateCM(p, M, batch, S, Dev, Md) ==
  LET r == EvalC(p, M, V0(p), batch, S, Dev, Md) IN [err |-> r.err, ret |-> r.out, M |-> r.M]
UpdateC(p, M, batch, S, Dev) == UpdateCM(p, M, batch, S, Dev, StdMode)

\* the contract (property C05): the concatenated returns denote Dense!SigC of the whole input on the domain they cover
\* (cells from time 0; a signal may begin later: every sub-formula is evaluated on its own domain, Dense!SigD, and the
\*  result is defined from the begin of the latest signal on - nothing may be emitted before)
RefCellsFM(p, W, vs, S, Md) ==
  LET d1 == DomEnd(W, vs) + Settle(p) IN
  SigD(p, CellsOf(W, vs, 0, d1), [v \in vs |-> FirstT(W[v])], d1 + 1, S, Md)
AgreesWithFM(emitted, p, W, vs, S, Md) ==
  emitted = <<>> \/
  LET R == RefCellsFM(p, W, vs, S, Md)
      n == Len(R.s) + R.o IN
  /\ FirstT(emitted) >= R.o
  /\ \A t \in FirstT(emitted)..LastT(emitted) : StepAt(emitted, t) = R.s[Clip(t + 1, n) - R.o]
AgreesWithF(emitted, p, W, vs, S) == AgreesWithFM(emitted, p, W, vs, S, [sem |-> "standard", io |-> [v \in vs |-> "output"]])
=============================================================================
