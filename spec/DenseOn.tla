------------------------------ MODULE DenseOn ------------------------------
(***************************************************************************)
(* Operational model of the dense-time ONLINE operators                    *)
(* (rtamt/semantics/stl/dense_time/online/*_operation.py, intersection.py).*)
(*                                                                         *)
(* A stream between two operators is a sequence of batches; a batch is a   *)
(* list of samples <<time, value>> with increasing times.  The samples fed *)
(* so far denote a step function that is known on [first time, last time]: *)
(* value v_i on [t_i, t_i+1) and v_n at the point t_n (its hold is not     *)
(* known yet).  An operator may repeat, as the first sample of a batch,    *)
(* the last sample of its previous batch.                                  *)
(*                                                                         *)
(* Part 1: once[a,b] / historically[a,b]  (once_timed_operation.py,        *)
(* historically_timed_operation.py), transcribed statement by statement.   *)
(* The memory of the operator is                                           *)
(*    prev : pending output triples <<from, to, value>> beyond the         *)
(*           knowledge frontier                                            *)
(*    rs   : residual_start, the time of the last sample consumed          *)
(*           (-1: none yet; the code uses -inf / +inf)                      *)
(*                                                                         *)
(* Dev is a set of deviations of the code as first read:                   *)
(*   "dropPending"  F-05a  the pending triple that starts exactly at rs is *)
(*                         emitted but not carried over (rs > b0, not >=)  *)
(*   "noDedupe"     F-05a  a repeated first sample is consumed again       *)
(***************************************************************************)
EXTENDS Dense

NaNV == 1999999996
Front(s) == SubSeq(s, 1, Len(s) - 1)
LastE(s) == s[Len(s)]

UnitOf(kind) == IF kind = "onceT" THEN NInf ELSE PInf
\* a[2] < b[2] for once (a maximum is kept), a[2] > b[2] for historically
Worse(kind, x, y) == IF kind = "onceT" THEN x < y ELSE x > y
Intersects(x1, x2, y1, y2) == x1 <= y2 /\ y1 <= x2

InitTimed == [prev |-> <<>>, rs |-> -1]

\* while (a[2] < b[2]) and (b[0] < a[0]): del out[-1]; a = out[-1]        (IndexError when out runs empty)
RECURSIVE PopLoop(_, _, _)
PopLoop(kind, out, b) ==
  IF out = <<>> THEN [err |-> TRUE, out |-> <<>>]
  ELSE LET a == LastE(out) IN
       IF Worse(kind, a[3], b[3]) /\ b[1] < a[1] THEN PopLoop(kind, Front(out), b)
       ELSE [err |-> FALSE, out |-> out]

\* the body of the main loop for one new triple b
Insert(kind, out, b) ==
  IF out = <<>> THEN [err |-> FALSE, out |-> <<b>>]
  ELSE LET r == PopLoop(kind, out, b) IN
    IF r.err THEN r
    ELSE LET o == r.out
             a == LastE(o) IN
      [err |-> FALSE, out |->
         IF ~Intersects(a[1], a[2], b[1], b[2]) THEN Append(o, b)
         ELSE IF ~Worse(kind, a[3], b[3]) THEN Append(o, <<a[2], b[2], b[3]>>)
         ELSE LET o1 == Front(o)
                  o2 == IF b[1] > a[1] THEN Append(o1, <<a[1], b[1], a[3]>>) ELSE o1 IN
              Append(o2, b)]

\* i = 1 .. len(sample)
RECURSIVE Feed(_, _, _, _, _, _)
Feed(kind, a, b, out, sample, i) ==
  IF i > Len(sample) THEN [err |-> FALSE, out |-> out]
  ELSE
    LET out1 == IF i = 1 /\ sample[1][1] = 0 /\ a > 0 THEN Append(out, <<0, sample[1][1] + a, UnitOf(kind)>>) ELSE out
        tb == IF i = Len(sample) THEN <<sample[i][1] + a, sample[i][1] + b, sample[i][2]>>
              ELSE <<sample[i][1] + a, sample[i + 1][1] + b, sample[i][2]>>
        r == Insert(kind, out1, tb) IN
    IF r.err THEN r ELSE Feed(kind, a, b, r.out, sample, i + 1)

\* the emission loop: triples up to the frontier rs are emitted, the rest is carried over
RECURSIVE Emit(_, _, _, _, _, _, _, _)
Emit(out, i, rs, pv, res, carry, last, Dev) ==
  IF i > Len(out) THEN [res |-> res, carry |-> carry, last |-> last]
  ELSE
    LET t == out[i]
        res1 == IF t[3] # pv \/ i = Len(out) THEN Append(res, <<t[1], t[3]>>) ELSE res IN
    IF rs >= t[2] THEN Emit(out, i + 1, rs, t[3], res1, carry, <<t[1], t[3]>>, Dev)
    ELSE IF t[1] <= rs /\ rs < t[2] THEN
      IF "dropPending" \in Dev /\ rs = t[1]
      THEN Emit(out, i + 1, rs, t[3], res1, carry, <<t[1], t[3]>>, Dev)
      ELSE Emit(out, i + 1, rs, t[3], res1, Append(carry, <<rs, t[2], t[3]>>), <<rs, t[3]>>, Dev)
    ELSE Emit(out, i + 1, rs, t[3], res, Append(carry, t), last, Dev)

Finish(res, last) ==
  IF last = <<>> THEN res
  ELSE IF res = <<>> THEN <<last>>
  ELSE IF last[1] > LastE(res)[1] THEN Append(res, last) ELSE res

\* OnceTimedOperation.update / HistoricallyTimedOperation.update
TimedUpd(kind, a, b, st, sample0, Dev) ==
  LET sample == IF "noDedupe" \notin Dev /\ sample0 # <<>> /\ sample0[1][1] = st.rs THEN Tail(sample0) ELSE sample0
      rs == IF sample # <<>> THEN LastE(sample)[1] ELSE st.rs
      out0 == IF sample # <<>> /\ st.prev # <<>>
              THEN Append(Front(st.prev), <<LastE(st.prev)[1], sample[1][1] + b, LastE(st.prev)[3]>>)
              ELSE st.prev
      f == Feed(kind, a, b, out0, sample, 1) IN
  IF f.err THEN [err |-> TRUE, ret |-> <<>>, st |-> st]
  ELSE LET e == Emit(f.out, 1, rs, NaNV, <<>>, <<>>, <<>>, Dev) IN
       [err |-> FALSE, ret |-> Finish(e.res, e.last), st |-> [prev |-> e.carry, rs |-> rs]]

---------------------------------------------------------------------------
\* What the operator must compute: the dense-time semantics of Dense!SigC on the whole signal.  sig is a sample
\* list that starts at time 0; cells are extended by b beyond its end (Dense!Settle).
RefCells(kind, a, b, sig) ==
  LET d1 == LastT(sig) + b
      n == d1 + 1
      C == CellsOf([x |-> sig], {"x"}, 0, d1) IN
  SigC([op |-> kind, l |-> [op |-> "var", v |-> "x"], a |-> a, b |-> b], C, n, 1, [sem |-> "standard", io |-> [x |-> "output"]])

\* emitted (concatenation of the returned batches) read as a step function agrees with the semantics wherever it is defined
AgreesWith(emitted, kind, a, b, sig) ==
  emitted = <<>> \/
  LET R == RefCells(kind, a, b, sig)
      n == Len(R) IN
  \A t \in FirstT(emitted)..LastT(emitted) : StepAt(emitted, t) = R[Clip(t + 1, n)]

StrictlyIncreasing(sl) == \A i \in 1..(Len(sl) - 1) : sl[i][1] < sl[i + 1][1]
=============================================================================
