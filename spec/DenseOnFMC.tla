----------------------------- MODULE DenseOnFMC -----------------------------
(***************************************************************************)
(* Property C05 on the operational model of a whole dense-time online      *)
(* monitor (DenseOn!UpdateC): every formula of a universe x every pair of  *)
(* short signals (common first and last time-stamp, otherwise independent  *)
(* break-points) x EVERY SCHEDULE - each update() hands every variable its *)
(* next k_v >= 0 samples, so variables run ahead of each other, batches    *)
(* are empty, everything comes at once or one sample at a time.            *)
(*   NoErr  no 'Unexpected case in the intersection' / IndexError path     *)
(*   Mono   the concatenated returns have non-decreasing time-stamps       *)
(*   Agree  read as a step function they equal Dense!SigC of the whole     *)
(*          input wherever they are defined (so two schedules never        *)
(*          disagree at an instant both cover)                             *)
(***************************************************************************)
EXTENDS DenseOn, SequencesExt, Json, TLC
CONSTANTS Formulas, MaxT, MaxN, Vals, Dev, SS, DoPrint,
          Starts,        \* a signal begins at some s in Starts (signals that begin at different times: Dense!SigD)
          Sems, IOs      \* semantics and IO classes explored (interface-aware variants, property C06)
VARIABLES phi, W, pos, M, emitted, err, md, hist
vars == <<phi, W, pos, M, emitted, err, md, hist>>

SigOf(S, st, e, vs) == LET ts == <<st>> \o SetToSortSeq(S, <) \o <<e>> IN [i \in 1..Len(ts) |-> <<ts[i], vs[i]>>]
Signals(e) == UNION {UNION {{SigOf(S, st, e, vs) : vs \in [1..(Cardinality(S) + 2) -> Vals]} :
                            S \in {S \in SUBSET ((st + 1)..(e - 1)) : Cardinality(S) <= MaxN - 2}} :
                     st \in {st \in Starts : st < e}}
\* finding F-05c: a bounded operator with begin > 0 over a signal that does not begin at time 0
LateTimed == \E q \in SubF(phi) : q.op \in Timed /\ q.a > 0 /\ \E v \in VarsOf(phi) : FirstT(W[v]) > 0

Init == /\ phi \in Formulas
        /\ \E e \in 1..MaxT : W \in [VarsOf(phi) -> Signals(e)]
        /\ pos = [v \in VarsOf(phi) |-> 0]
        /\ M = InitMemC(phi) /\ emitted = <<>> /\ err = FALSE
        /\ \E sm \in Sems : \E io \in [VarsOf(phi) -> IOs] : md = [sem |-> sm, io |-> io]
        /\ hist = <<>>

Next ==
  /\ ~err
  /\ \E k \in [VarsOf(phi) -> 0..MaxN] :
       /\ \A v \in VarsOf(phi) : pos[v] + k[v] <= Len(W[v])
       /\ \E v \in VarsOf(phi) : k[v] > 0
       /\ LET batch == [v \in VarsOf(phi) |-> SubSeq(W[v], pos[v] + 1, pos[v] + k[v])]
              r == UpdateCM(phi, M, batch, SS, Dev, md) IN
          /\ err' = r.err /\ M' = r.M /\ emitted' = emitted \o r.ret
          /\ pos' = [v \in VarsOf(phi) |-> pos[v] + k[v]]
          /\ hist' = IF DoPrint THEN Append(hist, batch) ELSE hist
  /\ UNCHANGED <<phi, W, md>>
Spec == Init /\ [][Next]_vars

NoErr == ~err
Mono == Monotone(emitted)
Agree == err \/ LateTimed \/ AgreesWithFM(emitted, phi, W, VarsOf(phi), SS, md)
\* always true: prints a finished behaviour (formula, semantics, the batches of every update) for replay on the real monitor
EmitBeh == (DoPrint /\ \A v \in VarsOf(phi) : pos[v] = Len(W[v])) =>
             PrintT("BEHAVIOUR " \o ToJson([phi |-> phi, md |-> md, hist |-> hist]))
=============================================================================
