----------------------------- MODULE DenseOnMC -----------------------------
(***************************************************************************)
(* Every way of feeding every short signal, batch by batch, through the    *)
(* model of the dense-time online once[a,b] / historically[a,b] operator   *)
(* (DenseOn!TimedUpd): consecutive batches, empty batches, and batches     *)
(* that repeat the last sample of the previous one (which is what an       *)
(* operator upstream does).  Property C05 at operator level:               *)
(*   NoErr        no IndexError / exception path                           *)
(*   Mono         concatenated output has non-decreasing time-stamps       *)
(*   BatchStrict  one returned batch has strictly increasing time-stamps   *)
(*                (what the binary operators downstream rely on)           *)
(*   Agree        read as a step function the output equals Dense!SigC of  *)
(*                the whole signal wherever it is defined                  *)
(*   Covers       once the whole signal is fed the output covers [T0, end] *)
(* hist records the batches; EmitBeh prints finished behaviours for replay    *)
(* on the real operator classes.                                           *)
(***************************************************************************)
EXTENDS DenseOn, SequencesExt, Json, TLC
CONSTANTS Kind, A, B, MaxT, MaxN, Vals, Dev, DoPrint, T0
VARIABLES sig, pos, st, emitted, err, lastRet, idle, hist
vars == <<sig, pos, st, emitted, err, lastRet, idle, hist>>

TimeSets == {S \in SUBSET (1..MaxT) : Cardinality(S) <= MaxN - 1}
SigOf(S, vs) == LET ts == <<0>> \o SetToSortSeq(S, <) IN [i \in 1..Len(ts) |-> <<T0 + ts[i], vs[i]>>]     \* first time-stamp T0

Init == /\ \E S \in TimeSets : \E vs \in [1..(Cardinality(S) + 1) -> Vals] : sig = SigOf(S, vs)
        /\ pos = 0 /\ st = InitTimed /\ emitted = <<>> /\ err = FALSE /\ lastRet = <<>> /\ idle = FALSE /\ hist = <<>>

Upd(batch, consumed, isIdle) ==
  LET r == TimedUpd(Kind, A, B, st, batch, Dev) IN
  /\ ~err
  /\ err' = r.err /\ st' = r.st /\ emitted' = emitted \o r.ret /\ lastRet' = r.ret
  /\ pos' = pos + consumed /\ idle' = isIdle /\ hist' = Append(hist, batch) /\ UNCHANGED sig

Next ==
  \/ \E k \in 1..(Len(sig) - pos) : Upd(SubSeq(sig, pos + 1, pos + k), k, FALSE)                   \* the next k samples
  \/ ~idle /\ pos > 0 /\ Upd(<<>>, 0, TRUE)                                                        \* an empty batch
  \/ ~idle /\ pos > 0 /\ \E k \in 0..(Len(sig) - pos) : Upd(SubSeq(sig, pos, pos + k), k, k = 0)  \* last sample repeated
Spec == Init /\ [][Next]_vars

NoErr == ~err
Mono == Monotone(emitted)
BatchStrict == StrictlyIncreasing(lastRet)
Agree == err \/ AgreesWith(emitted, Kind, A, B, sig)
Covers == (pos = Len(sig) /\ ~err) => (emitted # <<>> /\ LastT(emitted) = LastT(sig) /\ FirstT(emitted) = T0)
EmitBeh == (DoPrint /\ pos = Len(sig)) => PrintT("BEHAVIOUR " \o ToJson([kind |-> Kind, a |-> A, b |-> B, sig |-> sig, hist |-> hist]))
=============================================================================
