------------------------------ MODULE Explain ------------------------------
(***************************************************************************)
(* Operational model of explain() for discrete-time offline monitors       *)
(* (rtamt/explanation/ltl|stl/discrete_time/explainer.py, explanations.py).*)
(*                                                                         *)
(* The explainer walks the formula top-down with a set of positions I (the *)
(* code: a list of intervals) and a polarity flag (TRUE: explain why the   *)
(* sub-formula holds on I, FALSE: why it is violated), consulting the      *)
(* robustness R(q) of each sub-formula q computed by evaluate() (= Sem!Sig,*)
(* property C01), and records I for every node it reaches; the union over *)
(* all visits of a variable is what explain() reports for it.  Positions   *)
(* are 1-based here (the code: 0-based).  Ex(p, I, flag, ...) is the set   *)
(* of <<variable, position>> pairs reported below node p.                  *)
(*                                                                         *)
(* Dev: deviations of the code as first read (all repaired):               *)
(*   "impliesPolarity"  premise visited with the implication's polarity    *)
(*   "riseNoPrev"       rise / fall pass I to the operand unchanged        *)
(*   "firstInterval"    bounded operators use only the first run of I      *)
(*   "predicateKeepsPolarity"  the operands of a comparison / arithmetic   *)
(*                      operator are visited with the polarity of the      *)
(*                      comparison                                         *)
(*   "iffKeepsPolarity"  the operands of iff / xor were visited with the  *)
(*                      polarity of the iff / xor                          *)
(*   "negPassesPolarity"  unary minus, ln and log had no visitor: their    *)
(*                      operands were visited with the polarity unchanged  *)
(*                      (-(p and q), violated where p and q holds, was     *)
(*                      explained by nothing)                              *)
(***************************************************************************)
EXTENDS Sem

Shift(I, d, N) == {k + d : k \in I} \cap (1..N)
\* window of a bounded future / past operator, clipped to the trace like the code does (min(., N-1) / max(., 0))
Hi(x, N) == IF x > N THEN N ELSE x
Lo(x) == IF x < 1 THEN 1 ELSE x
FutWinE(I, a, b, N) == UNION {Hi(t + a, N)..Hi(t + b, N) : t \in I}
PastWinE(I, a, b) == UNION {Lo(t - b)..Lo(t - a) : t \in I}
MinOf(I) == CHOOSE k \in I : \A j \in I : k <= j
MaxOf(I) == CHOOSE k \in I : \A j \in I : k >= j
\* the first maximal run of consecutive positions of I
FirstRun(I) == IF I = {} THEN {} ELSE LET b == MinOf(I) IN {k \in I : \A j \in b..k : j \in I}

ExplainOK(p) == ~HasOp(p, {"until", "since", "untilT", "sinceT", "precT", "unless", "unlessT"})

\* Polarity of a visit: "sat" (explain why the sub-formula holds on I), "unsat" (why it is violated) or "none": below a
\* comparison or an arithmetic operator a sub-formula is a number, there is no polarity to follow, and the variant of the
\* operator's explanation that covers its whole window is used (Whole: TRUE if that is the "sat" variant).
Holds(flag, wholeWhenSat) == IF flag = "none" THEN wholeWhenSat ELSE flag = "sat"
Opp(flag) == CASE flag = "sat" -> "unsat" [] flag = "unsat" -> "sat" [] OTHER -> "none"

RECURSIVE Ex(_, _, _, _, _, _, _, _)
Ex(p, I, flag, W, N, S, M, Dev) ==
  LET Rl == Sig(p.l, W, N, S, M)
      Pos(Rq) == {k \in 1..N : Rq[k] >= 0}
      Ng(Rq) == {k \in 1..N : Rq[k] < 0}
      L(J, f) == Ex(p.l, J, f, W, N, S, M, Dev)
      Rr(J, f) == Ex(p.r, J, f, W, N, S, M, Dev)
      below == IF "predicateKeepsPolarity" \in Dev THEN flag ELSE "none"
      I1 == IF "firstInterval" \in Dev THEN FirstRun(I) ELSE I IN
  IF p.op = "var" THEN {<<p.v, k>> : k \in I}
  ELSE IF p.op = "const" THEN {}
  ELSE IF p.op \in {"abs", "sqrt", "exp"} THEN L(I, below)
  ELSE IF p.op \in {"neg", "ln"} THEN L(I, IF "negPassesPolarity" \in Dev THEN flag ELSE below)
  ELSE IF p.op \in {"pred", "add", "sub", "mul", "div", "pow"} THEN L(I, below) \cup Rr(I, below)
  ELSE IF p.op = "log" THEN (IF "negPassesPolarity" \in Dev THEN L(I, flag) \cup Rr(I, flag) ELSE L(I, below) \cup Rr(I, below))
  \* iff / xor: the robustness -|l - r| / |l - r| is a number computed from both operands; like below a comparison there
  \* is no polarity to follow (deviation iffKeepsPolarity: the code before its repair handed its own polarity down, so
  \* (p and q) iff r, violated with p and q true, explained p and q as if they were violated - by nothing)
  ELSE IF p.op \in {"iff", "xor"} THEN (IF "iffKeepsPolarity" \in Dev THEN L(I, flag) \cup Rr(I, flag) ELSE L(I, below) \cup Rr(I, below))
  ELSE IF p.op = "not" THEN L(I, Opp(flag))
  ELSE IF p.op = "and" THEN
    (IF Holds(flag, TRUE) THEN L(I, flag) \cup Rr(I, flag)
     ELSE L(I \cap Ng(Rl), flag) \cup Rr(I \cap Ng(Sig(p.r, W, N, S, M)), flag))
  ELSE IF p.op = "or" THEN
    (IF Holds(flag, FALSE) THEN L(I \cap Pos(Rl), flag) \cup Rr(I \cap Pos(Sig(p.r, W, N, S, M)), flag)
     ELSE L(I, flag) \cup Rr(I, flag))
  ELSE IF p.op = "implies" THEN
    LET pf == IF "impliesPolarity" \in Dev THEN flag ELSE Opp(flag) IN
    (IF Holds(flag, FALSE) THEN L(I \cap Ng(Rl), pf) \cup Rr(I \cap Pos(Sig(p.r, W, N, S, M)), flag)
     ELSE L(I, pf) \cup Rr(I, flag))
  ELSE IF I = {} THEN {}
  ELSE IF p.op = "ev" THEN (IF Holds(flag, FALSE) THEN L({k \in MinOf(I)..N : Rl[k] >= 0}, flag) ELSE L(MinOf(I)..N, flag))
  ELSE IF p.op = "alw" THEN (IF Holds(flag, TRUE) THEN L(MinOf(I)..N, flag) ELSE L({k \in MinOf(I)..N : Rl[k] < 0}, flag))
  ELSE IF p.op = "once" THEN (IF Holds(flag, FALSE) THEN L({k \in 1..MaxOf(I) : Rl[k] >= 0}, flag) ELSE L(1..MaxOf(I), flag))
  ELSE IF p.op = "hist" THEN (IF Holds(flag, TRUE) THEN L(1..MaxOf(I), flag) ELSE L({k \in 1..MaxOf(I) : Rl[k] < 0}, flag))
  ELSE IF p.op \in {"next", "snext"} THEN L(Shift(I, 1, N), flag)
  ELSE IF p.op \in {"prev", "sprev"} THEN L(Shift(I, -1, N), flag)
  ELSE IF p.op = "rise" THEN
    (IF "riseNoPrev" \in Dev THEN L(I, flag)
     ELSE IF Holds(flag, TRUE) THEN L(I, flag) \cup L(Shift(I, -1, N), Opp(flag))
     ELSE L({k \in I : Rl[k] < 0}, flag) \cup L(Shift({k \in I : Rl[k] >= 0}, -1, N), Opp(flag)))
  ELSE IF p.op = "fall" THEN
    (IF "riseNoPrev" \in Dev THEN L(I, flag)
     ELSE IF Holds(flag, TRUE) THEN L(I, Opp(flag)) \cup L(Shift(I, -1, N), flag)
     ELSE L({k \in I : Rl[k] > 0}, Opp(flag)) \cup L(Shift({k \in I : Rl[k] <= 0}, -1, N), flag))
  ELSE IF p.op = "evT" THEN
    (IF Holds(flag, FALSE) THEN L(FutWinE(I1, p.a, p.b, N) \cap Pos(Rl), flag) ELSE L(FutWinE(I1, p.a, p.b, N), flag))
  ELSE IF p.op = "alwT" THEN
    (IF Holds(flag, TRUE) THEN L(FutWinE(I1, p.a, p.b, N), flag) ELSE L(FutWinE(I1, p.a, p.b, N) \cap Ng(Rl), flag))
  ELSE IF p.op = "onceT" THEN
    (IF Holds(flag, FALSE) THEN L(PastWinE(I1, p.a, p.b) \cap Pos(Rl), flag) ELSE L(PastWinE(I1, p.a, p.b), flag))
  ELSE IF p.op = "histT" THEN
    (IF Holds(flag, TRUE) THEN L(PastWinE(I1, p.a, p.b), flag) ELSE L(PastWinE(I1, p.a, p.b) \cap Ng(Rl), flag))
  ELSE {}

\* explain(): only a specification violated at time 0 (negative robustness) is explained
Explanation(p, W, N, S, M, Dev) ==
  IF Sig(p, W, N, S, M)[1] < 0 THEN Ex(p, {1}, "unsat", W, N, S, M, Dev) ELSE {}
ReportedFor(E, v) == {pr[2] : pr \in {q \in E : q[1] = v}}

\* property C20: the reported positions are a sufficient cause - every trace X (over the value set Vs) that agrees with W
\* on them still violates the specification at time 0
\* "X satisfies p at time 0": the Boolean semantics where it applies (predicates over arithmetic terms); where a predicate
\* compares the value of a temporal / Boolean sub-formula, or an arithmetic operator stands in verdict position (-(p and q)),
\* a strictly positive robustness (definitely satisfied)
\* with iff / xor the sign of the robustness is not the Boolean verdict (p iff q has robustness -|p - q| <= 0): there "violated"
\* is rtamt's own notion, negative robustness, and X counts as not violating when its robustness is not negative
SatisfiedAt0(p, X, N, S, M) ==
  IF HasOp(p, {"iff", "xor"}) THEN (LET r == Sig(p, X, N, S, M)[1] IN r # Undef /\ r >= 0) ELSE
  IF ~IsBoolFormula(p) \/ SatUndef(p, X, N, S) THEN (LET r == Sig(p, X, N, S, M)[1] IN r # Undef /\ r > 0) ELSE Sat(p, X, N, S)[1]
SufficientCause(p, W, N, S, M, E, vs, Vs) ==
  \A X \in [vs -> [1..N -> Vs]] :
    (\A v \in vs : \A k \in ReportedFor(E, v) : X[v][k] = W[v][k]) => ~SatisfiedAt0(p, X, N, S, M)
=============================================================================
