----------------------------- MODULE ExplainMC -----------------------------
(***************************************************************************)
(* Property C20 on the model of the explainer: for every formula of a      *)
(* universe and every trace of length <= MaxN over Vals, if the formula    *)
(* is violated at time 0 the positions Explain!Explanation reports are a   *)
(* sufficient cause, and if it is satisfied nothing is reported.           *)
(***************************************************************************)
EXTENDS Explain, TLC
CONSTANTS Formulas, MaxN, Vals, Dev
VARIABLES phi, W, ready
vars == <<phi, W, ready>>
StdM(vs) == [sem |-> "standard", io |-> [v \in vs |-> "output"]]

Init == phi \in Formulas /\ W = <<>> /\ ready = FALSE
Next == /\ ~ready
        /\ \E n \in 1..MaxN : W' \in [VarsOf(phi) -> [1..n -> Vals]]
        /\ ready' = TRUE /\ UNCHANGED phi
Spec == Init /\ [][Next]_vars

Len1(w) == LET v == CHOOSE v \in DOMAIN w : TRUE IN Len(w[v])
Sufficient ==
  ready =>
    LET vs == VarsOf(phi)
        N == Len1(W)
        rho == Sig(phi, W, N, 1, StdM(vs))[1]
        E == Explanation(phi, W, N, 1, StdM(vs), Dev) IN
    IF rho < 0 THEN SufficientCause(phi, W, N, 1, StdM(vs), E, vs, Vals) ELSE E = {}
=============================================================================
