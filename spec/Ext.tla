-------------------------------- MODULE Ext --------------------------------
(***************************************************************************)
(* Extended fixed-point values used by every other module.                 *)
(*                                                                         *)
(* A case carries a scale S; the real number v is represented by the       *)
(* integer v*S.  +inf / -inf are the integers PInf / NInf with saturating  *)
(* arithmetic.  Any operation whose IEEE-754 result would be NaN, whose    *)
(* Python evaluation raises (division by zero, sqrt of a negative), or     *)
(* whose exact result is not representable at scale S yields Undef.  A     *)
(* case in which the oracle meets Undef is outside what the README         *)
(* defines and is skipped by the trace specifications, never reported.     *)
(* Mirrors: the Python float operators used by rtamt's visitors.           *)
(***************************************************************************)
EXTENDS Integers, FiniteSets, Sequences

PInf  == 100000000
NInf  == -100000000
Undef == 1999999999
Big   == 10000000          \* finite values beyond this magnitude are out of the model's range

IsInf(x) == x = PInf \/ x = NInf
IsFin(x) == x # PInf /\ x # NInf /\ x # Undef
Clamp(x) == IF x > Big \/ x < -Big THEN Undef ELSE x

Neg(x) == CASE x = Undef -> Undef [] x = PInf -> NInf [] x = NInf -> PInf [] OTHER -> -x
Min2(x, y) == IF x = Undef \/ y = Undef THEN Undef ELSE IF x <= y THEN x ELSE y
Max2(x, y) == IF x = Undef \/ y = Undef THEN Undef ELSE IF x >= y THEN x ELSE y
Abs(x) == CASE x = Undef -> Undef [] x = NInf -> PInf [] x < 0 -> -x [] OTHER -> x

Add(x, y) ==
  IF x = Undef \/ y = Undef THEN Undef
  ELSE IF x = PInf THEN (IF y = NInf THEN Undef ELSE PInf)
  ELSE IF x = NInf THEN (IF y = PInf THEN Undef ELSE NInf)
  ELSE IF IsInf(y) THEN y
  ELSE Clamp(x + y)
Sub(x, y) == Add(x, Neg(y))

Sgn(x) == IF x > 0 THEN 1 ELSE IF x < 0 THEN -1 ELSE 0

\* (x/S) * (y/S) at scale S
Mul(x, y, S) ==
  IF x = Undef \/ y = Undef THEN Undef
  ELSE IF IsInf(x) \/ IsInf(y)
       THEN (IF x = 0 \/ y = 0 THEN Undef
             ELSE IF Sgn(x) * Sgn(y) > 0 THEN PInf ELSE NInf)
  ELSE IF x > 40000 \/ x < -40000 \/ y > 40000 \/ y < -40000 THEN Undef   \* keep x*y inside 32 bits
  ELSE IF (x * y) % S # 0 THEN Undef
  ELSE Clamp((x * y) \div S)

\* (x/S) / (y/S) at scale S; Python raises ZeroDivisionError for y = 0
Div(x, y, S) ==
  IF x = Undef \/ y = Undef THEN Undef
  ELSE IF y = 0 THEN Undef
  ELSE IF IsInf(x) THEN (IF IsInf(y) THEN Undef ELSE IF Sgn(x) * Sgn(y) > 0 THEN PInf ELSE NInf)
  ELSE IF IsInf(y) THEN 0
  ELSE IF x > 40000 \/ x < -40000 THEN Undef
  ELSE LET n == IF y < 0 THEN -(x * S) ELSE x * S
           d == IF y < 0 THEN -y ELSE y IN
       IF n % d # 0 THEN Undef ELSE Clamp(n \div d)

\* exact integer square root at scale 1 only (perfect squares), else Undef
Sqrt(x, S) ==
  IF x = Undef \/ S # 1 \/ x < 0 THEN Undef
  ELSE IF x = PInf THEN PInf
  ELSE IF x > 10000 THEN Undef
  ELSE IF \E r \in 0..100 : r * r = x THEN CHOOSE r \in 0..100 : r * r = x ELSE Undef

\* x ** y at scale 1 for small non-negative integer exponents, else Undef
RECURSIVE IPow(_, _)
IPow(x, n) == IF n = 0 THEN 1 ELSE LET r == IPow(x, n - 1) IN
              IF r = Undef \/ r > 40000 \/ r < -40000 THEN Undef ELSE Clamp(r * x)
Pow(x, y, S) ==
  IF x = Undef \/ y = Undef \/ S # 1 THEN Undef
  ELSE IF ~IsFin(x) \/ ~IsFin(y) THEN Undef
  ELSE IF y < 0 \/ y > 6 \/ x > 40000 \/ x < -40000 THEN Undef
  ELSE IPow(x, y)

\* max / min of a finite set; empty set -> -inf / +inf; Undef is contagious
SetMax(S) == IF Undef \in S THEN Undef
             ELSE IF S = {} THEN NInf ELSE CHOOSE x \in S : \A y \in S : y <= x
SetMin(S) == IF Undef \in S THEN Undef
             ELSE IF S = {} THEN PInf ELSE CHOOSE x \in S : \A y \in S : x <= y

HasUndef(seq) == \E i \in 1..Len(seq) : seq[i] = Undef
=============================================================================
