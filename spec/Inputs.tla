------------------------------- MODULE Inputs -------------------------------
(***************************************************************************)
(* Which declared names are INPUT signals of a specification               *)
(* (rtamt/syntax/ast/parser/ltl/parser_visitor.py: visitExprId,            *)
(* visitAssertion; abstract_ast_parser.py: declare_var, free_vars).        *)
(*                                                                         *)
(* The monitors copy the supplied data into the AST only for names in      *)
(* free_vars (abstract_discrete_time_online_interpreter.py:60-66,          *)
(* abstract_dense_time_online_interpreter.py, dense_time_interpreter.py);  *)
(* the discrete-time offline monitor copies everything.  So a signal that  *)
(* some formula reads but that is missing from free_vars is silently       *)
(* replaced by its default value online and crashes the dense-time         *)
(* monitors (properties C02, C09, C12, C17).                               *)
(*                                                                         *)
(* A specification is a sequence of assertions  name = formula ; only the  *)
(* identifiers a formula mentions matter here.  An identifier is resolved  *)
(* when the formula is visited: a name an EARLIER assertion defined means  *)
(* that sub-formula, anything else is a read of the input signal (of the   *)
(* object, for an identifier with a field: o.f reads the signal o).        *)
(*                                                                         *)
(* State of the parser:                                                    *)
(*   sub    identifiers defined by the assertions seen so far              *)
(*   readv  variables read as input signals so far                         *)
(*   free   free_vars                                                      *)
(*   dictV  identifiers whose phi_name_to_node_dict entry is a Variable    *)
(*          (only used by the deviation "scanDict")                        *)
(*                                                                         *)
(* Dev: deviations of the code as first read (all repaired):               *)
(*   "discardAlways"  an assertion always removed its name from free_vars  *)
(*                    (x = prev(x); an un-named assertion over a signal    *)
(*                    called out)                                          *)
(*   "scanDict"       "is the name read as an input?" was answered by      *)
(*                    scanning phi_name_to_node_dict, where the first      *)
(*                    assertion to that name had overwritten the Variable  *)
(*                    (the second assertion to the name dropped the input) *)
(*   "noReAdd"        a read AFTER the assertion did not put the variable  *)
(*                    back (o.w = b >= 0; out = o.x >= 1)                  *)
(***************************************************************************)
EXTENDS Naturals, Sequences, FiniteSets, TLC, Json

CONSTANTS Ids,      \* identifiers that may be written and read, e.g. {"x", "y", "o.f", "o.g", "out"}
          MaxA,     \* number of assertions
          MaxR,     \* identifiers mentioned per formula (1..MaxR)
          Dev, DoPrint

ObjIds == {"o.f", "o.g", "o.x"}
HeadOf(i) == IF i \in ObjIds THEN "o" ELSE i
Vars == {HeadOf(i) : i \in Ids}

VARIABLES asrts, sub, readv, free, dictV
vars == <<asrts, sub, readv, free, dictV>>

\* declare_var of every name: each is a free variable to begin with
Init == asrts = <<>> /\ sub = {} /\ readv = {} /\ free = Vars /\ dictV = {}

\* visitExprId for every identifier of the formula, then visitAssertion for its name
Asrt(n, R) ==
  LET asVar == R \ sub                                   \* resolved as reads of input signals
      rv == readv \cup {HeadOf(i) : i \in asVar}
      free1 == IF "noReAdd" \in Dev THEN free ELSE free \cup {HeadOf(i) : i \in asVar}
      dv == dictV \cup asVar
      used == IF "discardAlways" \in Dev THEN FALSE
              ELSE IF "scanDict" \in Dev THEN \E i \in dv : HeadOf(i) = HeadOf(n)
              ELSE HeadOf(n) \in rv IN
  /\ asrts' = Append(asrts, [name |-> n, reads |-> R, asVar |-> asVar])
  /\ readv' = rv
  /\ dictV' = dv \ {n}                                   \* phi_name_to_node_dict[name] = the formula
  /\ sub' = sub \cup {n}
  /\ free' = IF used THEN free1 ELSE free1 \ {HeadOf(n)}

Next == /\ Len(asrts) < MaxA
        /\ \E n \in Ids : \E R \in SUBSET Ids : Cardinality(R) \in 1..MaxR /\ Asrt(n, R)
Spec == Init /\ [][Next]_vars

\* what the monitors rely on: every signal some formula reads is fed from the data
ReadImpliesFree == readv \subseteq free
\* ... and a name that is only ever assigned is not (its entry holds the default object that carries the output)
OnlyAssignedNotFree == \A a \in 1..Len(asrts) : HeadOf(asrts[a].name) \notin readv => HeadOf(asrts[a].name) \notin free

EmitBeh == (DoPrint /\ Len(asrts) = MaxA) => PrintT("BEHAVIOUR " \o ToJson([asrts |-> asrts, free |-> free, readv |-> readv]))
=============================================================================
