-------------------------------- MODULE Lang --------------------------------
(***************************************************************************)
(* The specification language of rtamt at token level                      *)
(* (rtamt/antlr/grammar/tl/LtlLexer.g4, LtlParser.g4, StlParser.g4).       *)
(*                                                                         *)
(* A text is a sequence of tokens  [k |-> class, v |-> value].  Classes:   *)
(*   "id" (v = name)   "num" (v = integer value)   "unit" (v = s|ms|us|ns) *)
(*   "(" ")" "[" "]" "," ":" ";" "="  "+" "-" "*" "/"                      *)
(*   "cmp" (v = ge|gt|le|lt|eq|ne)                                         *)
(*   "abs" "sqrt" "exp" "ln" "pow" "log" "rise" "fall"                     *)
(*   "not" "alw" "ev" "hist" "once" "prev" "next" "sprev" "snext"          *)
(*   "until" "unless" "since" "and" "or" "implies" "iff" "xor"             *)
(*   "const" "io" (input/output) "type" (float int long complex)           *)
(*   "spec" "from" "import" "@" "topic"                                    *)
(*   "other" : a token the lexer produces but no parser rule uses          *)
(*             ({ } . ps internal real bool assertion true false)          *)
(*   "ill"   : a character that starts no token (# ? \ " ' ~ ^ % ...)      *)
(* Operator aliases (G F U W S O H X Y sX sY ! & | -> <->) are the same    *)
(* token as the keyword: the lexer rule lists them as alternatives.        *)
(*                                                                         *)
(* Derivable(ts)  : membership in the language of                          *)
(*   specification_file : specification EOF                                *)
(*   specification : spec? modimport* (declaration | annotation)* assertion+ *)
(* as a set-of-end-positions recogniser (ambiguity is irrelevant for       *)
(* membership).  parse() appends the final ';' when the text lacks it.     *)
(*                                                                         *)
(* ParseAssertion(ts) : the tree ANTLR builds for  (id =)? expression ;    *)
(* according to the order of the alternatives of rule `expression`         *)
(* (earlier alternative = tighter binding, binary operators left-          *)
(* associative, the operand of a prefix operator extends over every        *)
(* operator that binds at least as tightly as the prefix operator).        *)
(***************************************************************************)
EXTENDS Sem

Tok(ts, i) == IF i <= Len(ts) THEN ts[i].k ELSE "EOF"

Fn1 == {"abs", "sqrt", "exp", "ln", "rise", "fall"}
Fn2 == {"pow", "log"}
PrefixPlain == {"not", "prev", "next", "sprev", "snext"}
PrefixIv == {"alw", "ev", "hist", "once"}
BinIv == {"until", "unless", "since"}
BinPlain == {"*", "/", "+", "-", "cmp", "and", "or", "implies", "iff", "xor"}

\* alternative number of rule `expression` in StlParser.g4 (1 = first) and the precedence ANTLR derives from it
AltOf(k) == CASE k = "neg" -> 2 [] k \in {"*", "/"} -> 9 [] k \in {"+", "-"} -> 10 [] k = "cmp" -> 11
              [] k = "not" -> 12 [] k = "alw" -> 13 [] k = "ev" -> 14 [] k = "hist" -> 15 [] k = "once" -> 16
              [] k = "prev" -> 17 [] k = "next" -> 18 [] k = "sprev" -> 19 [] k = "snext" -> 20
              [] k = "until" -> 21 [] k = "unless" -> 22 [] k = "since" -> 23
              [] k = "and" -> 24 [] k = "or" -> 25 [] k = "implies" -> 26 [] k = "iff" -> 27 [] k = "xor" -> 28
Prec(k) == 33 - AltOf(k)

---------------------------------------------------------------------------
\* Recogniser (sets of end positions)

IvTime(ts, i) == IF Tok(ts, i) \in {"num", "id"} THEN (IF Tok(ts, i+1) = "unit" THEN {i+2} ELSE {i+1}) ELSE {}
Interval(ts, i) ==
  IF Tok(ts, i) # "[" THEN {} ELSE
  UNION { IF Tok(ts, j) \in {":", ","} THEN {k + 1 : k \in {k \in IvTime(ts, j+1) : Tok(ts, k) = "]"}} ELSE {}
          : j \in IvTime(ts, i+1) }
OptInterval(ts, i) == {i} \cup Interval(ts, i)

RECURSIVE RExpr(_, _), RUnary(_, _), RTail(_, _, _)
RUnary(ts, i) ==
  LET t == Tok(ts, i) IN
  IF t \in PrefixPlain \cup {"-"} THEN RUnary(ts, i+1) \cup {}     \* operand: an expression starting here
  ELSE IF t \in PrefixIv THEN UNION {RUnary(ts, j) : j \in OptInterval(ts, i+1)}
  ELSE IF t = "(" THEN {j + 1 : j \in {j \in RExpr(ts, i+1) : Tok(ts, j) = ")"}}
  ELSE IF t \in Fn1 THEN (IF Tok(ts, i+1) = "(" THEN {j + 1 : j \in {j \in RExpr(ts, i+2) : Tok(ts, j) = ")"}} ELSE {})
  ELSE IF t \in Fn2 THEN (IF Tok(ts, i+1) = "(" THEN
         UNION {{k + 1 : k \in {k \in RExpr(ts, j+1) : Tok(ts, k) = ")"}} : j \in {j \in RExpr(ts, i+2) : Tok(ts, j) = ","}}
         ELSE {})
  ELSE IF t \in {"id", "num"} THEN {i+1}
  ELSE {}
\* closure of ( binop [interval] unary )* ; a prefix operator's operand may itself be followed by binary operators,
\* which for membership is the same as continuing the tail
RTail(ts, frontier, seen) ==
  IF frontier = {} THEN seen ELSE
  LET step == UNION { IF Tok(ts, j) \in BinPlain THEN RUnary(ts, j+1)
                      ELSE IF Tok(ts, j) \in BinIv THEN UNION {RUnary(ts, k) : k \in OptInterval(ts, j+1)}
                      ELSE {} : j \in frontier }
      new == step \ seen IN
  RTail(ts, new, seen \cup new)
RExpr(ts, i) == LET u == RUnary(ts, i) IN RTail(ts, u, u)

RAssertion(ts, i) ==
  LET starts == {i} \cup (IF Tok(ts, i) = "id" /\ Tok(ts, i+1) = "=" THEN {i+2} ELSE {}) IN
  {j + 1 : j \in {j \in UNION {RExpr(ts, s) : s \in starts} : Tok(ts, j) = ";"}}

DomainType(ts, i) == IF Tok(ts, i) \in {"type", "id"} THEN {i+1} ELSE {}
RVarDecl(ts, i) ==
  LET s0 == {i} \cup (IF Tok(ts, i) = "io" THEN {i+1} ELSE {})
      s1 == UNION {DomainType(ts, j) : j \in s0}
      s2 == {j + 1 : j \in {j \in s1 : Tok(ts, j) = "id"}} IN
  s2 \cup UNION { IF Tok(ts, j) = "=" THEN RExpr(ts, j+1) ELSE {} : j \in s2 }
RConstDecl(ts, i) ==
  IF Tok(ts, i) # "const" THEN {} ELSE
  {j + 3 : j \in {j \in DomainType(ts, i+1) : Tok(ts, j) = "id" /\ Tok(ts, j+1) = "=" /\ Tok(ts, j+2) = "num"}}
RAnnotation(ts, i) ==
  IF Tok(ts, i) = "@" /\ Tok(ts, i+1) = "topic" /\ Tok(ts, i+2) = "(" /\ Tok(ts, i+3) = "id" /\ Tok(ts, i+4) = ","
     /\ Tok(ts, i+5) = "id" /\ Tok(ts, i+6) = ")" THEN {i+7} ELSE {}
RImport(ts, i) ==
  IF Tok(ts, i) = "from" /\ Tok(ts, i+1) = "id" /\ Tok(ts, i+2) = "import" /\ Tok(ts, i+3) = "id" THEN {i+4} ELSE {}

DeclOrAnn(ts, i) == RVarDecl(ts, i) \cup RConstDecl(ts, i) \cup RAnnotation(ts, i)
\* positions reachable by zero or more imports / declarations / assertions
RECURSIVE ClImport(_, _, _), ClDecl(_, _, _), ClAssert(_, _, _)
ClImport(ts, frontier, seen) == IF frontier = {} THEN seen ELSE
  LET new == (UNION {RImport(ts, j) : j \in frontier}) \ seen IN ClImport(ts, new, seen \cup new)
ClDecl(ts, frontier, seen) == IF frontier = {} THEN seen ELSE
  LET new == (UNION {DeclOrAnn(ts, j) : j \in frontier}) \ seen IN ClDecl(ts, new, seen \cup new)
ClAssert(ts, frontier, seen) == IF frontier = {} THEN seen ELSE
  LET new == (UNION {RAssertion(ts, j) : j \in frontier}) \ seen IN ClAssert(ts, new, seen \cup new)

Derivable(ts0) ==
  LET ts == IF Len(ts0) > 0 /\ ts0[Len(ts0)].k = ";" THEN ts0 ELSE Append(ts0, [k |-> ";", v |-> ""])
      p0 == {1} \cup (IF Tok(ts, 1) = "spec" /\ Tok(ts, 2) = "id" THEN {3} ELSE {})
      p1 == ClImport(ts, p0, p0)
      p2 == ClDecl(ts, p1, p1)
      a1 == UNION {RAssertion(ts, j) : j \in p2}
      p3 == ClAssert(ts, a1, a1) IN
  Len(ts0) > 0 /\ (Len(ts) + 1) \in p3

---------------------------------------------------------------------------
\* Static rules of property C14: 0 <= begin <= end for literal bounds (as durations); bound identifiers are
\* declared constants (declared through the API: `consts`, or by a const declaration in the text)
DeclaredConsts(ts) == {ts[i+2].v : i \in {i \in 1..(Len(ts) - 2) : ts[i].k = "const" /\ ts[i+2].k = "id"}}
IntervalStarts(ts) == {i \in 1..Len(ts) : Interval(ts, i) # {}}
BoundTok(ts, i) == ts[i]                                   \* first bound token of the interval starting at i
SecondBoundPos(ts, i) == LET j == CHOOSE j \in IvTime(ts, i+1) : Tok(ts, j) \in {":", ","} IN j + 1
UExp(u) == CASE u = "s" -> 9 [] u = "ms" -> 6 [] u = "us" -> 3 [] OTHER -> 0
P10(d) == CASE d = 0 -> 1 [] d = 3 -> 1000 [] d = 6 -> 1000000 [] OTHER -> 1000000000
\* a * 10^ea <= b * 10^eb on naturals, without leaving 32 bits
DurLE(a, ea, b, eb) == IF ea >= eb THEN a <= b \div P10(ea - eb) ELSE (a + P10(eb - ea) - 1) \div P10(eb - ea) <= b
StaticOK(ts, consts) ==
  \A i \in IntervalStarts(ts) :
    LET b1 == ts[i+1]
        p2 == SecondBoundPos(ts, i)
        b2 == ts[p2]
        u1 == IF Tok(ts, i+2) = "unit" THEN ts[i+2].v ELSE ""
        u2 == IF Tok(ts, p2+1) = "unit" THEN ts[p2+1].v ELSE "" IN
    /\ (b1.k = "id" => b1.v \in consts \cup DeclaredConsts(ts))
    /\ (b2.k = "id" => b2.v \in consts \cup DeclaredConsts(ts))
    \* durations: a unit written on one bound only applies to both; no unit at all: plain numbers
    /\ ((b1.k = "num" /\ b2.k = "num") =>
          LET e1 == UExp(IF u1 = "" THEN u2 ELSE u1)
              e2 == UExp(IF u2 = "" THEN u1 ELSE u2) IN
          0 <= b1.v /\ DurLE(b1.v, e1, b2.v, e2))

---------------------------------------------------------------------------
\* The parser proper, for one assertion:  (id =)? expression ;?

Fail == [ok |-> FALSE, ast |-> [op |-> "null"], j |-> 0]
Good(a, j) == [ok |-> TRUE, ast |-> a, j |-> j]

\* interval with integer literal bounds and no units -> <<ok, a, b, next position>>
PInterval(ts, i) ==
  IF Tok(ts, i) = "[" /\ Tok(ts, i+1) = "num" /\ Tok(ts, i+2) \in {":", ","} /\ Tok(ts, i+3) = "num" /\ Tok(ts, i+4) = "]"
  THEN <<TRUE, ts[i+1].v, ts[i+3].v, i + 5>> ELSE <<FALSE, 0, 0, i>>

UnOp(k) == CASE k = "not" -> "not" [] k = "prev" -> "prev" [] k = "next" -> "next" [] k = "sprev" -> "sprev"
             [] k = "snext" -> "snext" [] k = "alw" -> "alw" [] k = "ev" -> "ev" [] k = "hist" -> "hist" [] k = "once" -> "once"
             [] k = "abs" -> "abs" [] k = "sqrt" -> "sqrt" [] k = "exp" -> "exp" [] k = "ln" -> "ln"
             [] k = "rise" -> "rise" [] k = "fall" -> "fall"
BinOp(t) == CASE t.k = "*" -> "mul" [] t.k = "/" -> "div" [] t.k = "+" -> "add" [] t.k = "-" -> "sub"
              [] t.k = "and" -> "and" [] t.k = "or" -> "or" [] t.k = "implies" -> "implies" [] t.k = "iff" -> "iff"
              [] t.k = "xor" -> "xor" [] t.k = "until" -> "until" [] t.k = "since" -> "since" [] t.k = "unless" -> "unless"

RECURSIVE PExpr(_, _, _), PPrimary(_, _), PLoop(_, _, _, _)
PPrimary(ts, i) ==
  LET t == Tok(ts, i) IN
  IF t = "(" THEN
     LET r == PExpr(ts, i+1, 0) IN IF r.ok /\ Tok(ts, r.j) = ")" THEN Good(r.ast, r.j + 1) ELSE Fail
  ELSE IF t = "-" THEN
     LET r == PExpr(ts, i+1, Prec("neg")) IN IF r.ok THEN Good([op |-> "neg", l |-> r.ast], r.j) ELSE Fail
  ELSE IF t \in Fn1 THEN
     (IF Tok(ts, i+1) # "(" THEN Fail ELSE
      LET r == PExpr(ts, i+2, 0) IN
      IF r.ok /\ Tok(ts, r.j) = ")" THEN Good([op |-> UnOp(t), l |-> r.ast], r.j + 1) ELSE Fail)
  ELSE IF t \in Fn2 THEN
     (IF Tok(ts, i+1) # "(" THEN Fail ELSE
      LET r1 == PExpr(ts, i+2, 0) IN
      IF ~(r1.ok /\ Tok(ts, r1.j) = ",") THEN Fail ELSE
      LET r2 == PExpr(ts, r1.j + 1, 0) IN
      IF r2.ok /\ Tok(ts, r2.j) = ")" THEN Good([op |-> t, l |-> r1.ast, r |-> r2.ast], r2.j + 1) ELSE Fail)
  ELSE IF t \in PrefixPlain THEN
     LET r == PExpr(ts, i+1, Prec(t)) IN IF r.ok THEN Good([op |-> UnOp(t), l |-> r.ast], r.j) ELSE Fail
  ELSE IF t \in PrefixIv THEN
     LET iv == PInterval(ts, i+1)
         r == PExpr(ts, iv[4], Prec(t)) IN
     IF ~r.ok \/ (Tok(ts, i+1) = "[" /\ ~iv[1]) THEN Fail
     ELSE IF iv[1] THEN Good([op |-> UnOp(t) \o "T", l |-> r.ast, a |-> iv[2], b |-> iv[3]], r.j)
     ELSE Good([op |-> UnOp(t), l |-> r.ast], r.j)
  ELSE IF t = "id" THEN Good([op |-> "var", v |-> ts[i].v], i + 1)
  ELSE IF t = "num" THEN Good([op |-> "const", c |-> ts[i].v], i + 1)
  ELSE Fail

PLoop(ts, left, j, p) ==
  LET t == Tok(ts, j) IN
  IF t \in BinPlain /\ Prec(t) >= p THEN
     LET r == PExpr(ts, j + 1, Prec(t) + 1) IN
     IF ~r.ok THEN Fail
     ELSE IF t = "cmp" THEN PLoop(ts, [op |-> "pred", cmp |-> ts[j].v, l |-> left, r |-> r.ast], r.j, p)
     ELSE PLoop(ts, [op |-> BinOp(ts[j]), l |-> left, r |-> r.ast], r.j, p)
  ELSE IF t \in BinIv /\ Prec(t) >= p THEN
     LET iv == PInterval(ts, j + 1)
         r == PExpr(ts, iv[4], Prec(t) + 1) IN
     IF ~r.ok \/ (Tok(ts, j+1) = "[" /\ ~iv[1]) THEN Fail
     ELSE IF iv[1] THEN PLoop(ts, [op |-> BinOp(ts[j]) \o "T", l |-> left, r |-> r.ast, a |-> iv[2], b |-> iv[3]], r.j, p)
     ELSE PLoop(ts, [op |-> BinOp(ts[j]), l |-> left, r |-> r.ast], r.j, p)
  ELSE Good(left, j)

PExpr(ts, i, p) == LET a == PPrimary(ts, i) IN IF a.ok THEN PLoop(ts, a.ast, a.j, p) ELSE Fail

\* untimed unless: documented sugar of the weak until
RECURSIVE DesugarU(_)
DesugarU(p) ==
  IF p.op \in {"var", "const"} THEN p
  ELSE IF p.op = "unless" THEN
       LET l == DesugarU(p.l) r == DesugarU(p.r) IN
       [op |-> "or", l |-> [op |-> "alw", l |-> l], r |-> [op |-> "until", l |-> l, r |-> r]]
  ELSE IF p.op \in Un1 THEN [p EXCEPT !.l = DesugarU(p.l)]
  ELSE [p EXCEPT !.l = DesugarU(p.l), !.r = DesugarU(p.r)]

ParseAssertion(ts0) ==
  LET ts == IF Len(ts0) > 0 /\ ts0[Len(ts0)].k = ";" THEN ts0 ELSE Append(ts0, [k |-> ";", v |-> ""])
      s == IF Tok(ts, 1) = "id" /\ Tok(ts, 2) = "=" THEN 3 ELSE 1
      r == PExpr(ts, s, 0) IN
  IF r.ok /\ Tok(ts, r.j) = ";" /\ r.j = Len(ts) THEN Good(Desugar(DesugarU(r.ast)), r.j) ELSE Fail
=============================================================================
