------------------------------ MODULE LangMC ------------------------------
(***************************************************************************)
(* Theorems about the language model Lang.tla, checked by TLC:             *)
(*  SubsetThm   (C14) every token string the precedence parser of the      *)
(*              model accepts is derivable by the recogniser - for ALL     *)
(*              strings up to length MaxL over an alphabet with one token  *)
(*              per class;                                                 *)
(*  RoundTrip   (C15) for every AST of a universe, the un-parser Min (the  *)
(*              fewest parentheses the precedence order of the grammar     *)
(*              allows) and the un-parser Full (every operand in           *)
(*              parentheses) yield derivable strings that ParseAssertion   *)
(*              maps back to the AST: grouping is decided by the order of  *)
(*              the alternatives of rule `expression`, never by accident.  *)
(* One state per string / per AST.                                         *)
(***************************************************************************)
EXTENDS Lang, TLC
CONSTANTS Alphabet, MaxL, Asts, Mode
VARIABLES item, ready
vars == <<item, ready>>

T(k, v) == [k |-> k, v |-> v]
\* token of a unary / binary operator node
UnTok(op) == CASE op \in {"onceT"} -> "once" [] op = "histT" -> "hist" [] op = "evT" -> "ev" [] op = "alwT" -> "alw" [] OTHER -> op
BinTok(op) == CASE op = "add" -> "+" [] op = "sub" -> "-" [] op = "mul" -> "*" [] op = "div" -> "/"
                [] op = "sinceT" -> "since" [] op = "untilT" -> "until" [] op = "unlessT" -> "unless" [] OTHER -> op
IsPrefix(p) == p.op \in {"neg", "not", "prev", "next", "sprev", "snext", "once", "hist", "ev", "alw", "onceT", "histT", "evT", "alwT"}
IsBinary(p) == p.op \in {"pred", "add", "sub", "mul", "div", "and", "or", "implies", "iff", "xor", "since", "until", "unless",
                         "sinceT", "untilT", "unlessT"}
NodePrec(p) == IF p.op = "neg" THEN Prec("neg") ELSE IF p.op = "pred" THEN Prec("cmp")
               ELSE IF IsPrefix(p) THEN Prec(UnTok(p.op)) ELSE IF IsBinary(p) THEN Prec(BinTok(p.op)) ELSE 100
\* smallest precedence of a prefix operator on the unparenthesised right spine (its operand would swallow what follows)
RECURSIVE OpenPrefixMin(_)
OpenPrefixMin(p) == IF IsPrefix(p) THEN (LET m == OpenPrefixMin(p.l) IN IF NodePrec(p) < m THEN NodePrec(p) ELSE m)
                    ELSE IF IsBinary(p) THEN OpenPrefixMin(p.r) ELSE 100
IvToks(p) == <<T("[", ""), T("num", p.a), T(",", ""), T("num", p.b), T("]", "")>>
Paren(ts) == <<T("(", "")>> \o ts \o <<T(")", "")>>

RECURSIVE Unparse(_, _)
Unparse(p, full) ==
  LET Child(q, minprec, leftOf) ==
        LET ts == Unparse(q, full)
            need == full \/ (IsBinary(q) /\ NodePrec(q) < minprec) \/ (leftOf > 0 /\ OpenPrefixMin(q) <= leftOf) IN
        IF need /\ (IsBinary(q) \/ IsPrefix(q)) THEN Paren(ts) ELSE ts IN
  IF p.op = "var" THEN <<T("id", p.v)>>
  ELSE IF p.op = "const" THEN <<T("num", p.c)>>
  ELSE IF p.op = "neg" THEN <<T("-", "")>> \o Child(p.l, Prec("neg"), 0)
  ELSE IF p.op \in Fn1 THEN <<T(p.op, ""), T("(", "")>> \o Unparse(p.l, full) \o <<T(")", "")>>
  ELSE IF p.op \in Fn2 THEN <<T(p.op, ""), T("(", "")>> \o Unparse(p.l, full) \o <<T(",", "")>> \o Unparse(p.r, full) \o <<T(")", "")>>
  ELSE IF IsPrefix(p) THEN
    <<T(UnTok(p.op), "")>> \o (IF p.op \in Timed THEN IvToks(p) ELSE <<>>) \o Child(p.l, Prec(UnTok(p.op)), 0)
  ELSE IF p.op = "pred" THEN Child(p.l, Prec("cmp"), Prec("cmp")) \o <<T("cmp", p.cmp)>> \o Child(p.r, Prec("cmp") + 1, 0)
  ELSE
    LET k == BinTok(p.op) IN
    Child(p.l, Prec(k), Prec(k)) \o <<T(k, "")>> \o (IF p.op \in Timed THEN IvToks(p) ELSE <<>>) \o Child(p.r, Prec(k) + 1, 0)

\* strings grow token by token (every string up to MaxL is a state); ASTs are chosen in one step
Init == item = <<>> /\ ready = (Mode = "strings")
Next == IF Mode = "strings"
        THEN Len(item) < MaxL /\ (\E t \in Alphabet : item' = Append(item, t)) /\ UNCHANGED ready
        ELSE ~ready /\ ready' = TRUE /\ item' \in Asts
Spec == Init /\ [][Next]_vars

SubsetThm == (Mode = "strings" /\ item # <<>>) => (ParseAssertion(item).ok => Derivable(item))
RoundTrip ==
  (ready /\ Mode = "asts") =>
    LET want == Desugar(DesugarU(item))
        tmin == Unparse(item, FALSE)
        tful == Unparse(item, TRUE) IN
    /\ Derivable(tmin) /\ ParseAssertion(tmin).ok /\ ParseAssertion(tmin).ast = want
    /\ Derivable(tful) /\ ParseAssertion(tful).ok /\ ParseAssertion(tful).ast = want
=============================================================================
