-------------------------------- MODULE Norm --------------------------------
(***************************************************************************)
(* From the specification text as written to the AST a monitor evaluates:  *)
(* the physical meaning of temporal bounds (property C08).                 *)
(***************************************************************************)
EXTENDS Sem, Units

\* From the AST as written (bounds as literals num/den with optional unit suffixes: fields aw, bw, au, bu) to the
\* AST the monitor evaluates (bounds a, b in samples).  U = [def, pnum, pden, punit]: default unit of the
\* specification (spec.unit) and sampling period.  Discrete time: samples = duration / period.
\* A timed node without the field aw is already in samples.
BoundOf(lit, unit, U) == SamplesOf(lit[1], lit[2], unit, U.pnum, U.pden, U.punit)
NodeBounds(p, U) == <<BoundOf(p.aw, BeginUnit(p.au, p.bu, U.def), U), BoundOf(p.bw, EndUnit(p.au, p.bu, U.def), U)>>
Written(p) == "aw" \in DOMAIN p

RECURSIVE NormAst(_, _)
NormAst(p, U) ==
  IF p.op \in {"var", "const"} THEN p
  ELSE IF p.op = "pred" THEN [op |-> "pred", cmp |-> p.cmp, l |-> NormAst(p.l, U), r |-> NormAst(p.r, U)]
  ELSE IF p.op \in Timed THEN
       LET ab == IF Written(p) THEN LET nb == NodeBounds(p, U) IN <<nb[1][2], nb[2][2]>> ELSE <<p.a, p.b>> IN
       IF p.op \in Un1 THEN [op |-> p.op, l |-> NormAst(p.l, U), a |-> ab[1], b |-> ab[2]]
       ELSE [op |-> p.op, l |-> NormAst(p.l, U), r |-> NormAst(p.r, U), a |-> ab[1], b |-> ab[2]]
  ELSE IF p.op \in Un1 THEN [op |-> p.op, l |-> NormAst(p.l, U)]
  ELSE [op |-> p.op, l |-> NormAst(p.l, U), r |-> NormAst(p.r, U)]

\* "ok": every bound is a whole number of samples with begin <= end; "nonint": some bound is not a multiple of
\* the sampling period (RTAMTException at the first evaluation); "overflow": outside the model's number range
BoundKinds(p, U) == UNION {IF q.op \in Timed /\ Written(q)
                             THEN {NodeBounds(q, U)[1][1], NodeBounds(q, U)[2][1]} ELSE {} : q \in SubF(p)}
NormStatus(p, U) == LET ks == BoundKinds(p, U) IN
                    IF "overflow" \in ks THEN "overflow" ELSE IF "nonint" \in ks THEN "nonint" ELSE "ok"
\* the pastifier works on the written numbers and rebuilds intervals without units (finding F-08b): it is only
\* right when every bound's effective unit is the default unit and, if next is used, one period = one default unit
UnitsPlain(p, U) ==
  /\ \A q \in SubF(p) : (q.op \in Timed /\ Written(q)) =>
        (BeginUnit(q.au, q.bu, U.def) = U.def /\ EndUnit(q.au, q.bu, U.def) = U.def)
  /\ (HasOp(p, {"next", "snext"}) => (U.pnum = U.pden /\ U.punit = U.def))

=============================================================================
