------------------------------ MODULE Offline ------------------------------
(***************************************************************************)
(* Operational model of the discrete-time offline visitors                 *)
(* (rtamt/semantics/stl/discrete_time/offline/ast_visitor.py): every       *)
(* operator is the list algorithm of its visitX - the running min/max      *)
(* loops, the +-inf padding in front (timed once / historically) and at    *)
(* the end (timed always / eventually, with the slice that cuts the result *)
(* back to the trace length), the ring buffers pre-filled with +-inf of    *)
(* timed since / until (until runs over the reversed lists).               *)
(* OffEval(p, W, N, S, M) must equal Sem!Sig(p, W, N, S, M): theorem       *)
(* OfflineRefines of SemMC.tla, model-checked on all short traces.         *)
(* Python lists are 0-based; L0(s, i) reads a TLA+ sequence 0-based.       *)
(***************************************************************************)
EXTENDS Sem

L0(s, i) == s[i + 1]
Rev(s) == [i \in 1..Len(s) |-> s[Len(s) - i + 1]]
Fill(n, x) == [i \in 1..n |-> x]

\* running fold: out[i] = f(s[i], out[i-1]) with out[0] = init    (visitOnce / visitHistorically loops)
RECURSIVE RunFold(_, _, _, _)
RunFold(F(_, _), s, init, k) ==
  IF k = 0 THEN <<>> ELSE LET p == RunFold(F, s, init, k - 1) IN
                           Append(p, F(s[k], IF k = 1 THEN init ELSE p[k - 1]))

\* python slice s[lo:hi] on a 0-based list (indices clipped to the list)
Slice(s, lo, hi) == LET a == IF lo < 0 THEN 0 ELSE lo
                        b == IF hi > Len(s) THEN Len(s) ELSE hi IN
                    IF b <= a THEN <<>> ELSE SubSeq(s, a + 1, b)
SeqMax(s) == SetMax({s[i] : i \in 1..Len(s)})
SeqMin(s) == SetMin({s[i] : i \in 1..Len(s)})

\* visitTimedOnce / visitTimedHistorically: pad `end` values in front, slide a window
TimedPast(s, a, b, pad, Agg(_)) ==
  LET sp == Fill(b, pad) \o s IN
  [j \in 1..Len(s) |-> Agg(Slice(sp, (j - 1 + b) - b, (j - 1 + b) - a + 1))]

\* visitTimedAlways / visitTimedEventually: pad at the end when the trace is not longer than `end`,
\* windows from `begin`, the tail filled with the neutral value, cut back to the original length
TimedFuture(s, a, b, pad, Agg(_)) ==
  LET n == Len(s)
      sp == IF n <= b THEN s \o Fill(b - n + 1, pad) ELSE s
      d == b - a
      first == [j \in 1..(b - a + 1) |-> Agg(Slice(sp, (a + j - 1), (a + j - 1) + d + 1))]
      rest == [j \in 1..(IF Len(sp) > b + 1 THEN Len(sp) - (b + 1) ELSE 0) |-> Agg(Slice(sp, b + j, b + j + d + 1))]
      body == first \o rest
      full == body \o Fill(Len(sp) - Len(body), pad) IN
  SubSeq(full, 1, n)

\* visitTimedSince: two deques of maxlen end+1 pre-filled with +inf / -inf
RECURSIVE SinceLoop(_, _, _, _, _, _, _)
SinceLoop(l, r, a, b, bl, br, i) ==
  IF i > Len(l) THEN <<>> ELSE
  LET bl2 == Append(Tail(bl), l[i])
      br2 == Append(Tail(br), r[i])
      out == SetMax({Min2(L0(br2, j), SetMin({L0(bl2, k) : k \in (j + 1)..b})) : j \in 0..(b - a)}) IN
  <<out>> \o SinceLoop(l, r, a, b, bl2, br2, i + 1)
TimedSinceAlg(l, r, a, b) == SinceLoop(l, r, a, b, Fill(b + 1, PInf), Fill(b + 1, NInf), 1)
\* visitTimedUntil: the same loop over the reversed lists, result reversed
TimedUntilAlg(l, r, a, b) == Rev(TimedSinceAlg(Rev(l), Rev(r), a, b))

RECURSIVE OffEval(_, _, _, _, _)
OffEval(p, W, N, S, M) ==
  LET T == 1..N IN
  IF p.op = "var" THEN W[p.v]
  ELSE IF p.op = "const" THEN Fill(N, p.c)
  ELSE IF p.op \in Un1 THEN
    LET x == OffEval(p.l, W, N, S, M) IN
    CASE p.op = "abs"   -> [t \in T |-> Abs(x[t])]
      [] p.op = "neg"   -> [t \in T |-> Neg(x[t])]
      [] p.op = "sqrt"  -> [t \in T |-> Sqrt(x[t], S)]
      [] p.op = "not"   -> [t \in T |-> Neg(x[t])]
      [] p.op = "once"  -> RunFold(LAMBDA v, acc : Max2(v, acc), x, NInf, N)
      [] p.op = "hist"  -> RunFold(LAMBDA v, acc : Min2(v, acc), x, PInf, N)
      [] p.op = "ev"    -> Rev(RunFold(LAMBDA v, acc : Max2(v, acc), Rev(x), NInf, N))
      [] p.op = "alw"   -> Rev(RunFold(LAMBDA v, acc : Min2(v, acc), Rev(x), PInf, N))
      [] p.op = "prev"  -> SubSeq(<<PInf>> \o x, 1, N)
      [] p.op = "sprev" -> SubSeq(<<NInf>> \o x, 1, N)
      [] p.op = "next"  -> Tail(x) \o <<PInf>>
      [] p.op = "snext" -> Tail(x) \o <<NInf>>
      [] p.op = "rise"  -> LET pv == SubSeq(<<NInf>> \o x, 1, N) IN [t \in T |-> Min2(Neg(pv[t]), x[t])]
      [] p.op = "fall"  -> LET pv == SubSeq(<<PInf>> \o x, 1, N) IN [t \in T |-> Min2(pv[t], Neg(x[t]))]
      [] p.op = "onceT" -> TimedPast(x, p.a, p.b, NInf, SeqMax)
      [] p.op = "histT" -> TimedPast(x, p.a, p.b, PInf, SeqMin)
      [] p.op = "evT"   -> TimedFuture(x, p.a, p.b, NInf, SeqMax)
      [] p.op = "alwT"  -> TimedFuture(x, p.a, p.b, PInf, SeqMin)
      [] OTHER -> Fill(N, Undef)
  ELSE
    LET x == OffEval(p.l, W, N, S, M)
        y == OffEval(p.r, W, N, S, M) IN
    CASE p.op = "add"     -> [t \in T |-> Add(x[t], y[t])]
      [] p.op = "sub"     -> [t \in T |-> Sub(x[t], y[t])]
      [] p.op = "mul"     -> [t \in T |-> Mul(x[t], y[t], S)]
      [] p.op = "div"     -> [t \in T |-> Div(x[t], y[t], S)]
      [] p.op = "pred"    -> [t \in T |-> PredIA(p, x[t], y[t], M)]
      [] p.op = "and"     -> [t \in T |-> Min2(x[t], y[t])]
      [] p.op = "or"      -> [t \in T |-> Max2(x[t], y[t])]
      [] p.op = "implies" -> [t \in T |-> Max2(Neg(x[t]), y[t])]
      [] p.op = "iff"     -> [t \in T |-> Neg(Abs(Sub(x[t], y[t])))]
      [] p.op = "xor"     -> [t \in T |-> Abs(Sub(x[t], y[t]))]
      \* visitSince: out = max(min(l, prev_out), r); visitUntil: the same backwards
      [] p.op = "since"   -> LET xy == [t \in T |-> <<x[t], y[t]>>] IN
                             RunFold(LAMBDA v, acc : Max2(Min2(v[1], acc), v[2]), xy, NInf, N)
      [] p.op = "until"   -> LET xy == [t \in T |-> <<x[t], y[t]>>] IN
                             Rev(RunFold(LAMBDA v, acc : Max2(Min2(v[1], acc), v[2]), Rev(xy), NInf, N))
      [] p.op = "sinceT"  -> TimedSinceAlg(x, y, p.a, p.b)
      [] p.op = "untilT"  -> TimedUntilAlg(x, y, p.a, p.b)
      [] OTHER -> Fill(N, Undef)
=============================================================================
