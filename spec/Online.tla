------------------------------- MODULE Online -------------------------------
(***************************************************************************)
(* Operational model of the discrete-time online monitor                   *)
(* (rtamt/semantics/stl/discrete_time/online/*_operation.py,               *)
(*  abstract_online_interpreter.py).                                       *)
(*                                                                         *)
(* rtamt keeps one operation object per *printed node name*                *)
(* (online_operator_dict[node.name]).  Two sub-formulas have the same      *)
(* printed name exactly when they are structurally equal, so the model     *)
(* keys the operator memories by the sub-formula itself:                   *)
(*      on : [ stateful sub-formulas of the installed AST -> memory ]      *)
(* One update() evaluates every distinct sub-formula once (post-order),    *)
(* reading its own memory and its operands' outputs of this step, then     *)
(* stores the new memory.  Out and NewMem are one operator per             *)
(* XOperation.update.                                                      *)
(*                                                                         *)
(* Deviation StepPerVisit (defect F-02a of the unrepaired code): the       *)
(* memory of a name is advanced once per *visit* of a node with that name, *)
(* so a formula text that occurs k times advances k times per update.      *)
(* It is modelled for unary stateful duplicates by OutDup below and used   *)
(* only to demonstrate that the invariant C02 is not vacuous.              *)
(***************************************************************************)
EXTENDS Sem

Stateful == {"prev", "sprev", "rise", "fall", "once", "hist", "since",
             "onceT", "histT", "sinceT", "precT"}
OnlineUnsupported == {"ev", "alw", "until", "evT", "alwT", "untilT", "next", "snext"}

Fill(n, x) == [i \in 1..n |-> x]
Push(buf, x) == Append(Tail(buf), x)          \* collections.deque(maxlen).append

InitMem(q) ==
  CASE q.op = "prev"  -> <<PInf>>
    [] q.op = "sprev" -> <<NInf>>
    [] q.op = "rise"  -> <<NInf>>
    [] q.op = "fall"  -> <<PInf>>
    [] q.op = "once"  -> <<NInf>>
    [] q.op = "hist"  -> <<PInf>>
    [] q.op = "since" -> <<NInf>>
    [] q.op = "onceT" -> Fill(q.b + 1, NInf)
    [] q.op = "histT" -> Fill(q.b + 1, PInf)
    [] q.op \in {"sinceT", "precT"} -> [L |-> Fill(q.b + 1, PInf), R |-> Fill(q.b + 1, NInf)]

StatefulSub(p) == {q \in SubF(p) : q.op \in Stateful}
InitOn(p) == [q \in StatefulSub(p) |-> InitMem(q)]

RECURSIVE Out(_, _, _, _, _)
Out(q, on, s, S, M) ==
  IF q.op = "var" THEN s[q.v]
  ELSE IF q.op = "const" THEN q.c
  ELSE IF q.op \in Un1 THEN
    LET x == Out(q.l, on, s, S, M) IN
    CASE q.op = "abs"   -> Abs(x)
      [] q.op = "neg"   -> Neg(x)
      [] q.op = "sqrt"  -> Sqrt(x, S)
      [] q.op = "exp"   -> IF x = 0 THEN S ELSE IF x = NInf THEN 0 ELSE IF x = PInf THEN PInf ELSE Undef
      [] q.op = "ln"    -> IF x = S THEN 0 ELSE IF x = PInf THEN PInf ELSE Undef
      [] q.op = "not"   -> Neg(x)
      [] q.op \in {"prev", "sprev"} -> on[q][1]
      [] q.op = "rise"  -> Min2(Neg(on[q][1]), x)
      [] q.op = "fall"  -> Min2(on[q][1], Neg(x))
      [] q.op = "once"  -> Max2(x, on[q][1])
      [] q.op = "hist"  -> Min2(x, on[q][1])
      [] q.op = "onceT" -> LET buf == Push(on[q], x) IN SetMax({buf[i] : i \in 1..(q.b - q.a + 1)})
      [] q.op = "histT" -> LET buf == Push(on[q], x) IN SetMin({buf[i] : i \in 1..(q.b - q.a + 1)})
      [] OTHER -> Undef
  ELSE
    LET x == Out(q.l, on, s, S, M)
        y == Out(q.r, on, s, S, M) IN
    CASE q.op = "add"     -> Add(x, y)
      [] q.op = "sub"     -> Sub(x, y)
      [] q.op = "mul"     -> Mul(x, y, S)
      [] q.op = "div"     -> Div(x, y, S)
      [] q.op = "pow"     -> Pow(x, y, S)
      [] q.op = "log"     -> IF x = S /\ IsFin(y) /\ y > S THEN 0 ELSE Undef
      [] q.op = "pred"    -> PredIA(q, x, y, M)
      [] q.op = "and"     -> Min2(x, y)
      [] q.op = "or"      -> Max2(x, y)
      [] q.op = "implies" -> Max2(Neg(x), y)
      [] q.op = "iff"     -> Neg(Abs(Sub(x, y)))
      [] q.op = "xor"     -> Abs(Sub(x, y))
      [] q.op = "since"   -> Max2(Min2(x, on[q][1]), y)
      [] q.op = "sinceT"  ->
           LET bl == Push(on[q].L, x)
               br == Push(on[q].R, y) IN
           SetMax({Min2(br[i], SetMin({bl[j] : j \in (i+1)..(q.b+1)})) : i \in 1..(q.b - q.a + 1)})
      [] q.op = "precT"   ->
           LET bl == Push(on[q].L, x)
               br == Push(on[q].R, y) IN
           SetMax({Min2(br[i], SetMin({bl[j] : j \in 1..(i-1)})) : i \in (q.a+1)..(q.b+1)})
      [] OTHER -> Undef

NewMem(q, on, s, S, M) ==
  CASE q.op \in {"prev", "sprev", "rise", "fall"} -> <<Out(q.l, on, s, S, M)>>
    [] q.op \in {"once", "hist", "since"} -> <<Out(q, on, s, S, M)>>
    [] q.op \in {"onceT", "histT"} -> Push(on[q], Out(q.l, on, s, S, M))
    [] q.op \in {"sinceT", "precT"} -> [L |-> Push(on[q].L, Out(q.l, on, s, S, M)),
                                         R |-> Push(on[q].R, Out(q.r, on, s, S, M))]

StepOn(on, s, S, M) == [q \in DOMAIN on |-> NewMem(q, on, s, S, M)]

OnlineOK(p) == ~HasOp(p, OnlineUnsupported)

---------------------------------------------------------------------------
\* Deviation StepPerVisit: value returned for  q (op) q  when q = stateful unary over a stateless
\* operand and both occurrences share one memory that is advanced by each visit (left, then right).
OutSecondVisit(q, on, s, S, M) ==
  LET on1 == [on EXCEPT ![q] = NewMem(q, on, s, S, M)] IN Out(q, on1, s, S, M)
=============================================================================
