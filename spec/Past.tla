-------------------------------- MODULE Past --------------------------------
(***************************************************************************)
(* The pastifier (rtamt/pastifier/stl/pastifier.py, horizon.py and their   *)
(* ltl parents), one clause per visitX.                                    *)
(*                                                                         *)
(* Hz(p, Dev)      : horizon.py                                            *)
(* Pst(p, H, Dev)  : pastifier.py, H = remaining horizon handed down       *)
(* Pastify(p, Dev) : Pst(p, Hz(p))                                         *)
(*                                                                         *)
(* Dev is a set of named deviations of the code as originally read:        *)
(*   "nextNoHorizon"  F-03a  next / s_next add no horizon                  *)
(*   "histLost"       F-03b  historically[a,b] with remaining delay d > 0  *)
(*                           becomes once[d,d](child)                      *)
(*   "negDropped"     F-03d  unary minus, ln, log are replaced by their    *)
(*                           (last) operand                                *)
(* Dev = {} is the intended translation.                                   *)
(*                                                                         *)
(* PastOverFuture(p) characterises the formulas on which the scheme        *)
(* itself is unsound (F-03c): a past operator whose operand contains a     *)
(* future operator sees the warm-up values (+-inf) of the delayed operand  *)
(* as if they were data.                                                   *)
(***************************************************************************)
EXTENDS Sem

\* a delay of d samples: once[d,d] in the STL pastifier, a chain of d (weak) prev in the LTL pastifier ("ltlDelay")
RECURSIVE PrevN(_, _)
PrevN(p, d) == IF d <= 0 THEN p ELSE [op |-> "prev", l |-> PrevN(p, d - 1)]
DelayD(p, d, Dev) == IF d <= 0 THEN p
                     ELSE IF "ltlDelay" \in Dev THEN PrevN(p, d)
                     ELSE [op |-> "onceT", l |-> p, a |-> d, b |-> d]

RECURSIVE Hz(_, _)
Hz(p, Dev) ==
  IF p.op \in {"var", "const"} THEN 0
  ELSE IF p.op \in {"next", "snext"} THEN
       (IF "nextNoHorizon" \in Dev THEN Hz(p.l, Dev) ELSE Hz(p.l, Dev) + 1)
  ELSE IF p.op \in {"evT", "alwT"} THEN Hz(p.l, Dev) + p.b
  ELSE IF p.op = "untilT" THEN Max2(Hz(p.l, Dev), Hz(p.r, Dev)) + p.b
  ELSE IF p.op \in {"neg", "ln"} /\ "negDropped" \in Dev THEN Hz(p.l, Dev)
  ELSE IF p.op = "log" /\ "negDropped" \in Dev THEN Hz(p.r, Dev)
  ELSE IF p.op \in Un1 THEN Hz(p.l, Dev)
  ELSE Max2(Hz(p.l, Dev), Hz(p.r, Dev))

Pastifiable(p) == ~HasUnbFuture(p)

RECURSIVE Pst(_, _, _)
Pst(p, H, Dev) ==
  LET nh == Hz(p, Dev)
      d  == H - nh IN
  IF p.op = "var" THEN DelayD(p, H, Dev)
  ELSE IF p.op = "const" THEN p
  ELSE IF p.op \in {"next", "snext"} THEN Pst(p.l, H - 1, Dev)
  ELSE IF p.op = "evT" THEN
       LET c == Pst(p.l, H - p.b, Dev) IN
       IF p.b - p.a > 0 THEN [op |-> "onceT", l |-> c, a |-> 0, b |-> p.b - p.a] ELSE c
  ELSE IF p.op = "alwT" THEN
       LET c == Pst(p.l, H - p.b, Dev) IN
       IF p.b - p.a > 0 THEN [op |-> "histT", l |-> c, a |-> 0, b |-> p.b - p.a] ELSE c
  ELSE IF p.op = "untilT" THEN
       [op |-> "precT", l |-> Pst(p.l, H - p.b, Dev), r |-> Pst(p.r, H - p.b, Dev), a |-> p.a, b |-> p.b]
  ELSE IF p.op = "onceT" THEN
       [op |-> "onceT", l |-> Pst(p.l, nh, Dev), a |-> p.a + Max2(d, 0), b |-> p.b + Max2(d, 0)]
  ELSE IF p.op = "histT" THEN
       (IF d > 0 /\ "histLost" \in Dev
        THEN [op |-> "onceT", l |-> Pst(p.l, nh, Dev), a |-> d, b |-> d]
        ELSE DelayD([op |-> "histT", l |-> Pst(p.l, nh, Dev), a |-> p.a, b |-> p.b], d, Dev))
  ELSE IF p.op \in {"sinceT", "precT"} THEN
       DelayD([op |-> p.op, l |-> Pst(p.l, nh, Dev), r |-> Pst(p.r, nh, Dev), a |-> p.a, b |-> p.b], d, Dev)
  ELSE IF p.op \in {"neg", "ln"} /\ "negDropped" \in Dev THEN Pst(p.l, H, Dev)
  ELSE IF p.op = "log" /\ "negDropped" \in Dev THEN Pst(p.r, H, Dev)
  ELSE IF p.op = "pred" THEN
       DelayD([op |-> "pred", cmp |-> p.cmp, l |-> Pst(p.l, nh, Dev), r |-> Pst(p.r, nh, Dev)], d, Dev)
  ELSE IF p.op \in Un1 THEN DelayD([op |-> p.op, l |-> Pst(p.l, nh, Dev)], d, Dev)
  ELSE DelayD([op |-> p.op, l |-> Pst(p.l, nh, Dev), r |-> Pst(p.r, nh, Dev)], d, Dev)

Pastify(p, Dev) == Pst(p, Hz(p, Dev), Dev)

PastOverFuture(p) ==
  \E q \in SubF(p) : q.op \in (PastOps \ {"precT"}) /\
     (IF q.op \in Un1 THEN HasFuture(q.l) ELSE HasFuture(q.l) \/ HasFuture(q.r))
=============================================================================
