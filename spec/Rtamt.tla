------------------------------- MODULE Rtamt -------------------------------
(***************************************************************************)
(* The life-cycle machine of rtamt discrete-time specification objects.    *)
(* Actions are the public calls; the state of one object is a record whose *)
(* fields are the abstract counterparts of the state that survives between *)
(* calls (DESIGN.md section 1):                                            *)
(*                                                                         *)
(*   cfg    [S, M, vars, period, tol]  scale, interface-aware mode,        *)
(*          variable names, sampling period and absolute tolerance         *)
(*          (period * tolerance), both in the integer time base of the     *)
(*          time-stamps                                                    *)
(*   phase  "new" | "parsed" | "pastified" | "online" | "offline"          *)
(*          | "stale" (pastify() again after updates: only reset() is      *)
(*          specified)                                                     *)
(*   phi    the AST as written (sub-specifications inlined)                *)
(*   inst   the AST installed in the monitor (= phi until pastify())       *)
(*   hist   [var -> Seq]   samples since the last reset / of the last      *)
(*                         evaluate()                                      *)
(*   ts     time-stamps of those samples                                   *)
(*   on     operator memories (Online.tla)                                 *)
(*   outOn  values returned by update() since the last reset               *)
(*   offOut result of the last evaluate()                                  *)
(*   viol   sampling-violation counter                                     *)
(*   ecfg   the configuration under which the last evaluate() ran (an      *)
(*          object that is not fed online may be re-configured between     *)
(*          evaluations: action Reconfigure)                               *)
(*                                                                         *)
(*   new --Parse--> parsed --[Pastify]--> pastified                        *)
(*        parsed/pastified --Update*/Reset--> online                       *)
(*        parsed --Evaluate/Extend--> offline                              *)
(*        parsed/offline --Reconfigure--> the same phase, another cfg      *)
(*        parsed/offline --Reparse--> parsed, another formula              *)
(*                                                                         *)
(* Every action is given as a guard  CanX(m, ..)  and a function           *)
(* XF(m, ..)  on object records, so that the same definitions serve the    *)
(* model-checking configurations (MC_*.tla, variable `ms`) and the trace   *)
(* specifications that replay recorded executions of the real library     *)
(* (Trace*.tla).  Objects live side by side in  ms : [1..K -> record];     *)
(* an action touches the record of one object only, which is what          *)
(* property C11 (isolation) says about the implementation.                 *)
(***************************************************************************)
EXTENDS Sem, Online, Past, Norm

Null == [op |-> "null"]

EmptyW(vs) == [v \in vs |-> <<>>]
LenW(W, vs) == IF vs = {} THEN 0 ELSE Len(W[CHOOSE v \in vs : TRUE])
AppendW(W, s, vs) == [v \in vs |-> Append(W[v], s[v])]
PrefixW(W, k, vs) == [v \in vs |-> SubSeq(W[v], 1, k)]

\* the current value of every input is state, too: update() may leave a variable out, which then keeps the value it was
\* last given - or the default value of its declaration (0) if it was never given since the object was created or reset
Default(vs) == [v \in vs |-> 0]
NewObj(c) == [cfg |-> c, phase |-> "new", phi |-> Null, inst |-> Null,
              hist |-> EmptyW(c.vars), ts |-> <<>>, on |-> <<>>, outOn |-> <<>>,
              offOut |-> <<>>, viol |-> 0, cur |-> Default(c.vars), ecfg |-> c,
              tols |-> <<>>]      \* the tolerance in force at each update() since the last reset (it may be re-configured: Retolerance)
\* the sample an update() with the (possibly partial) assignment s means
Full(m, s) == [v \in m.cfg.vars |-> IF v \in DOMAIN s THEN s[v] ELSE m.cur[v]]

---------------------------------------------------------------------------
\* parse()
CanParse(m) == m.phase = "new"
ParseF(m, f) == [m EXCEPT !.phase = "parsed", !.phi = f, !.inst = f]

\* spec.spec = <another text>, perhaps add_sub_spec(), and parse() again on an object that is not fed online: the object then
\* monitors the new formula (the assertions of the earlier text stay behind in the library, the result is that of the last one)
CanReparse(m) == m.phase \in {"parsed", "offline"}
ReparseF(m, f) == [m EXCEPT !.phase = "parsed", !.phi = f, !.inst = f]

\* pastify(): only specifications without unbounded future operators (others: RTAMTException)
CanPastify(m) == m.phase = "parsed" /\ Pastifiable(m.phi)
PastifyF(m, Dev) == [m EXCEPT !.phase = "pastified", !.inst = Pastify(m.phi, Dev)]

\* pastify() once more, on a monitor whose installed formula has no future operator (a pastified monitor, or one for a past
\* formula, that may already have received updates): the formula stays what it is, but the library builds the operators anew
\* at the next call.  What update() returns before the next reset() is not specified (phase "stale"); reset() brings the
\* monitor back to its initial state with the counter at 0 like any other reset (property C10, seed C10-g)
CanRepastify(m) == m.phase \in {"pastified", "online"} /\ m.inst.op # "null" /\ ~HasFuture(m.inst)
RepastifyF(m) == IF m.phase = "online" THEN [m EXCEPT !.phase = "stale"] ELSE m

\* the tolerance test of DiscreteTimeInterpreter.update_sampling_violation_counter
BadGap(c, g) == g < c.period - c.tol \/ g > c.period + c.tol
CountBad(c, T) == Cardinality({k \in 1..(Len(T) - 1) : BadGap(c, T[k+1] - T[k])})
\* ... when the tolerance was re-configured between updates: every gap is judged by the tolerance in force when its second sample arrives
CountBadT(c, T, tl) == Cardinality({k \in 1..(Len(T) - 1) : BadGap([c EXCEPT !.tol = tl[k+1]], T[k+1] - T[k])})

\* update(t, s); the first update installs the AST in the interpreter (set_ast builds the operators);
\* an AST with a future operator is rejected there with RTAMTException
OnlinePhase(m) == m.phase \in {"parsed", "pastified", "online"}
CanUpdate(m) == OnlinePhase(m) /\ OnlineOK(m.inst)
CurOn(m) == IF m.phase = "online" THEN m.on ELSE InitOn(m.inst)
UpdateOut(m, s, Dev) ==
  LET cur == CurOn(m) p == m.inst c == m.cfg IN
  IF "stepPerVisit" \in Dev /\ p.op \in Bin2 /\ p.l = p.r /\ p.l.op \in Stateful
  THEN \* deviation F-02a: both occurrences of the operand share one memory advanced per visit
       LET x == Out(p.l, cur, s, c.S, c.M)
           y == OutSecondVisit(p.l, cur, s, c.S, c.M) IN
       Out([p EXCEPT !.l = [op |-> "const", c |-> x], !.r = [op |-> "const", c |-> y]], cur, s, c.S, c.M)
  ELSE Out(p, cur, s, c.S, c.M)
UpdateF(m, s0, t, Dev) ==
  LET s == Full(m, s0) IN
  [m EXCEPT !.phase = "online",
            !.outOn = Append(m.outOn, UpdateOut(m, s, Dev)),
            !.on = StepOn(CurOn(m), s, m.cfg.S, m.cfg.M),
            !.hist = AppendW(m.hist, s, m.cfg.vars),
            !.cur = s,
            !.ts = Append(m.ts, t),
            !.tols = Append(m.tols, m.cfg.tol),
            !.viol = IF m.ts # <<>> /\ BadGap(m.cfg, t - m.ts[Len(m.ts)]) THEN m.viol + 1 ELSE m.viol]

\* reset(): operators back to their initial memories, histories and counters cleared.  Before the first update it changes
\* nothing: the phase stays what it was, so pastify() may still follow (parse, reset, pastify, update ...)
CanReset(m) == (OnlinePhase(m) \/ m.phase = "stale") /\ OnlineOK(m.inst)
ResetF(m, Dev) ==
  [m EXCEPT !.phase = IF m.phase = "stale" THEN "online" ELSE m.phase,
            !.on = InitOn(m.inst), !.outOn = <<>>,
            !.hist = EmptyW(m.cfg.vars), !.ts = <<>>, !.tols = <<>>,
            \* (deviation resetKeepsInputs: the code before its repair kept the last values of the inputs)
            !.cur = IF "resetKeepsInputs" \in Dev THEN m.cur ELSE Default(m.cfg.vars),
            !.viol = IF "resetKeepsViol" \in Dev \/ ("staleKeepsViol" \in Dev /\ m.phase = "stale") THEN m.viol ELSE 0]

\* evaluate(dataset): the offline result is the semantics of the whole trace
CanEvaluate(m) == m.phase \in {"parsed", "offline"}
\* (deviation staleConfig: what is derived from the configuration - predicates' input / output kinds, tolerance band - is
\*  memoised at the first evaluation and survives a re-configuration; the seeds of round 9 are of this kind)
EvalCfg(m, D) == IF "staleConfig" \in D /\ m.phase = "offline" THEN m.ecfg ELSE m.cfg
EvaluateFD(m, W, T, D) ==
  LET c == EvalCfg(m, D) IN
  [m EXCEPT !.phase = "offline", !.hist = W, !.ts = T,
            !.offOut = Sig(m.phi, W, Len(T), c.S, c.M),
            !.viol = CountBad(c, T),
            !.ecfg = m.cfg]
EvaluateF(m, W, T) == EvaluateFD(m, W, T, {})
\* evaluate() on the trace extended by one sample: every trace is reached this way
ExtendFD(m, s, t, D) == EvaluateFD(m, AppendW(m.hist, s, m.cfg.vars), Append(m.ts, t), D)
ExtendF(m, s, t) == ExtendFD(m, s, t, {})

\* set_sampling_period() / set_var_io_type() and parse() again on an object that is not fed online: the configuration in force
\* when the next evaluate() runs decides (interface-aware predicates, tolerance band; with written bounds also their sample counts,
\* see Norm and TraceDt!ApplyConfig).  Scale, variables and the kind of semantics are fixed at construction.
\* set_sampling_period() with the same period (perhaps re-stated in another unit) and another tolerance on an online monitor,
\* between updates: the gaps that follow are judged by the new tolerance (the operators keep their sample counts)
CanRetolerance(m, c) == OnlinePhase(m) /\ c # m.cfg /\ [c EXCEPT !.tol = m.cfg.tol] = m.cfg
RetoleranceF(m, c) == [m EXCEPT !.cfg = c]

CanReconfigure(m, c) == /\ m.phase \in {"parsed", "offline"} /\ c # m.cfg
                        /\ c.vars = m.cfg.vars /\ c.S = m.cfg.S /\ c.M.sem = m.cfg.M.sem     \* (the semantics is a constructor argument)
ReconfigureF(m, c) == [m EXCEPT !.cfg = c]

---------------------------------------------------------------------------
\* The machine over K objects (model-checking form)

CONSTANTS K,          \* number of objects side by side
          Configs,    \* configurations an object may be created with
          Formulas,   \* ASTs Parse may install
          Vals,       \* sample values (scaled)
          Gaps,       \* gaps between consecutive time-stamps
          MaxLen,     \* bound on samples per object
          Dev,        \* deviations switched on ({} = intended design)
          Mode        \* "online" | "offline": which half of the API the configuration explores ("offline_re": with Reparse);
                      \* "partial": online, and an update() may leave variables out

VARIABLE ms
vars == <<ms>>

Init == ms \in [1..K -> {NewObj(c) : c \in Configs}]

NextStamp(m, g) == IF m.ts = <<>> THEN 0 ELSE m.ts[Len(m.ts)] + g

Parse(i, f)   == CanParse(ms[i]) /\ ms' = [ms EXCEPT ![i] = ParseF(ms[i], f)]
OnlineMode == Mode \in {"online", "partial"}
Samples(vs) == IF Mode = "partial" THEN UNION {[D -> Vals] : D \in SUBSET vs} ELSE [vs -> Vals]
PastifyA(i)   == OnlineMode /\ CanPastify(ms[i]) /\ ms' = [ms EXCEPT ![i] = PastifyF(ms[i], Dev)]
Update(i, s, g) == /\ OnlineMode /\ CanUpdate(ms[i]) /\ Len(ms[i].outOn) < MaxLen
                   /\ ms' = [ms EXCEPT ![i] = UpdateF(ms[i], s, NextStamp(ms[i], g), Dev)]
Reset(i)      == OnlineMode /\ CanReset(ms[i]) /\ ms' = [ms EXCEPT ![i] = ResetF(ms[i], Dev)]
Repastify(i)  == OnlineMode /\ CanRepastify(ms[i]) /\ ms[i].phase = "online" /\ ms' = [ms EXCEPT ![i] = RepastifyF(ms[i])]
OfflineMode == Mode \in {"offline", "offline_re"}
Extend(i, s, g) == /\ OfflineMode /\ CanEvaluate(ms[i]) /\ Len(ms[i].ts) < MaxLen
                   /\ ms' = [ms EXCEPT ![i] = ExtendFD(ms[i], s, NextStamp(ms[i], g), Dev)]
Retolerance(i, c) == OnlineMode /\ CanRetolerance(ms[i], c) /\ ms' = [ms EXCEPT ![i] = RetoleranceF(ms[i], c)]
Reparse(i, f) == Mode = "offline_re" /\ CanReparse(ms[i]) /\ f # ms[i].phi /\ ms' = [ms EXCEPT ![i] = ReparseF(ms[i], f)]
Reconfigure(i, c) == /\ OfflineMode /\ CanReconfigure(ms[i], c)
                     /\ ms' = [ms EXCEPT ![i] = ReconfigureF(ms[i], c)]

Next == \E i \in 1..K :
          \/ \E f \in Formulas : Parse(i, f)
          \/ PastifyA(i)
          \/ \E s \in Samples(ms[i].cfg.vars), g \in Gaps : Update(i, s, g)
          \/ \E s \in [ms[i].cfg.vars -> Vals], g \in Gaps : Extend(i, s, g)
          \/ Reset(i)
          \/ Repastify(i)
          \/ \E c \in Configs : Reconfigure(i, c)
          \/ \E f \in Formulas : Reparse(i, f)
          \/ \E c \in Configs : Retolerance(i, c)

Spec == Init /\ [][Next]_vars

---------------------------------------------------------------------------
\* Properties (m ranges over the objects)

\* C01 (shape): one value per input sample
C01len(m) == m.phase = "offline" => Len(m.offOut) = Len(m.ts)

\* C02: the k-th update() since the last reset returns the offline robustness at sample k of the
\* samples fed so far
C02(m) == (m.phase = "online" /\ ~HasFuture(m.phi)) =>
         LET N == Len(m.outOn)
             ref == Sig(m.inst, m.hist, N, m.cfg.S, m.cfg.M) IN
         \A k \in 1..N : ref[k] = Undef \/ m.outOn[k] = ref[k]
\* ... and is a function of the prefix only
C02prefix(m) == (m.phase = "online" /\ ~HasFuture(m.phi)) =>
         \A k \in 1..Len(m.outOn) :
            LET ref == Sig(m.inst, PrefixW(m.hist, k, m.cfg.vars), k, m.cfg.S, m.cfg.M) IN
            ref[k] = Undef \/ m.outOn[k] = ref[k]

\* C03: the pastified monitor returns the original robustness delayed by the horizon, on the trace
\* seen so far.  (PastOverFuture formulas: the scheme is unsound, finding F-03c.)
C03(m) == (m.phase = "online" /\ m.inst # m.phi /\ ~PastOverFuture(m.phi)) =>
         LET h == Hor(m.phi) IN
         \A k \in 1..Len(m.outOn) : k > h =>
            LET ref == Sig(m.phi, PrefixW(m.hist, k, m.cfg.vars), k, m.cfg.S, m.cfg.M) IN
            ref[k - h] = Undef \/ m.outOn[k] = ref[k - h]
\* the same property without the exclusion: violated by the scheme itself (used with DevOn configs)
C03all(m) == (m.phase = "online" /\ m.inst # m.phi) =>
         LET h == Hor(m.phi) IN
         \A k \in 1..Len(m.outOn) : k > h =>
            LET ref == Sig(m.phi, PrefixW(m.hist, k, m.cfg.vars), k, m.cfg.S, m.cfg.M) IN
            ref[k - h] = Undef \/ m.outOn[k] = ref[k - h]
\* pastify() leaves a future-free specification unchanged
C03nf(m) == (m.phase \in {"pastified", "online"} /\ ~HasFuture(m.phi)) => m.inst = m.phi

\* C10: after reset() the monitor is in its initial state; operationally: the memories always equal
\* those of a fresh monitor fed the samples since the last reset
RECURSIVE Replay(_, _, _, _)
Replay(p, W, k, c) == IF k = 0 THEN InitOn(p)
                      ELSE StepOn(Replay(p, W, k - 1, c), [v \in c.vars |-> W[v][k]], c.S, c.M)
C10fresh(m) == m.phase = "online" => m.on = Replay(m.inst, m.hist, Len(m.outOn), m.cfg)
\* ... and the current input values are those of the last sample since the last reset, or the defaults
C10cur(m) == m.phase = "online" =>
               m.cur = (IF m.ts = <<>> THEN Default(m.cfg.vars) ELSE [v \in m.cfg.vars |-> m.hist[v][Len(m.ts)]])

\* C13: the counter equals the number of out-of-tolerance gaps since the last reset / of the data set
\* (offline: under the configuration in force at that evaluation)
C13(m) == /\ m.phase = "online" => m.viol = CountBadT(m.cfg, m.ts, m.tols)
          /\ m.phase = "offline" => m.viol = CountBad(m.ecfg, m.ts)
\* C01 / C06 on a re-configured object: the last result is the semantics under the configuration in force at that evaluation
C01cfg(m) == m.phase = "offline" => m.offOut = Sig(m.phi, m.hist, Len(m.ts), m.ecfg.S, m.ecfg.M)
\* ... and an evaluation always runs under the current configuration (violated by the deviation staleConfig)
ActReconf == [][\A i \in 1..K : (ms'[i].phase = "offline" /\ (ms'[i].ts # ms[i].ts \/ ms[i].phase # "offline")) => ms'[i].ecfg = ms'[i].cfg]_vars

InvC01 == \A i \in 1..K : C01len(ms[i])
InvC02 == \A i \in 1..K : C02(ms[i]) /\ C02prefix(ms[i])
InvC03 == \A i \in 1..K : C03(ms[i]) /\ C03nf(ms[i])
InvC03all == \A i \in 1..K : C03all(ms[i])
InvC10 == \A i \in 1..K : C10fresh(ms[i]) /\ C10cur(ms[i])
InvC13 == \A i \in 1..K : C13(ms[i])
InvC01cfg == \A i \in 1..K : C01cfg(ms[i])

\* C10 as an action property: a step that empties outOn of an online object is a reset and leaves it
\* in the initial state
ActC10 == [][\A i \in 1..K :
              ((OnlinePhase(ms[i]) \/ ms[i].phase = "stale") /\ ms'[i].phase = "online" /\ ms'[i].outOn = <<>>) =>
                 (ms'[i].on = InitOn(ms[i].inst) /\ ms'[i].viol = 0 /\ ms'[i].ts = <<>> /\ ms'[i].cur = Default(ms[i].cfg.vars))]_vars

\* C11 (isolation): a step changes at most one object
ActC11 == [][\A i, j \in 1..K : (i # j /\ ms'[i] # ms[i]) => ms'[j] = ms[j]]_vars

\* C16: settled offline values are stable under extension of the trace
ActC16 == [][\A i \in 1..K :
              (ms[i].phase = "offline" /\ ms'[i].phase = "offline" /\ ms'[i].ecfg = ms[i].ecfg /\ ~HasUnbFuture(ms[i].phi)) =>
                 \A t \in 1..Len(ms[i].offOut) : t + Hor(ms[i].phi) <= Len(ms[i].offOut) =>
                    (ms[i].offOut[t] = Undef \/ ms'[i].offOut[t] = Undef
                       \/ ms'[i].offOut[t] = ms[i].offOut[t])]_vars
=============================================================================
