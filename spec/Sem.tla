-------------------------------- MODULE Sem --------------------------------
(***************************************************************************)
(* Declarative semantics of STL as rtamt's README defines it, written as   *)
(* signal transformers: Sig(p, W, N, S, M) is the sequence                  *)
(*     << rho(p, w, 0), ..., rho(p, w, N-1) >>                              *)
(* for the trace W (a function  variable name -> Seq of N scaled values).   *)
(* Index k of a TLA+ sequence is sample k-1 of rtamt.                       *)
(*                                                                         *)
(* AST shape (nested records, field "op" decides which others exist):      *)
(*   var(v)  const(c)                                                      *)
(*   abs neg sqrt exp ln (l)       add sub mul div pow log (l, r)          *)
(*   pred(cmp, l, r)  cmp \in {"ge","gt","le","lt","eq","ne"}              *)
(*   not (l)   and or implies iff xor (l, r)   rise fall (l)               *)
(*   prev sprev next snext (l)                                             *)
(*   once hist ev alw (l)          since until (l, r)                      *)
(*   onceT histT evT alwT (l,a,b)  sinceT untilT precT (l,r,a,b)           *)
(* with a, b in samples.  precT is the "precedes" node that only the       *)
(* pastifier creates.                                                      *)
(*                                                                         *)
(* M is the interface-aware mode: [sem |-> "standard" | "out_rob" |        *)
(* "in_rob" | "out_vac" | "in_vac", io |-> [var -> "input"|"output"]].     *)
(* README_extensions: a predicate that mentions no output (input) variable *)
(* contributes +-inf by satisfaction (robustness variants) or 0 (vacuity   *)
(* variants).                                                              *)
(***************************************************************************)
EXTENDS Ext, TLC

Un1   == {"abs", "neg", "sqrt", "exp", "ln", "not", "rise", "fall",
          "prev", "sprev", "next", "snext", "once", "hist", "ev", "alw",
          "onceT", "histT", "evT", "alwT"}
Bin2  == {"add", "sub", "mul", "div", "pow", "log", "pred", "and", "or", "implies",
          "iff", "xor", "since", "until", "sinceT", "untilT", "precT", "unlessT"}
Timed == {"onceT", "histT", "evT", "alwT", "sinceT", "untilT", "precT", "unlessT"}
FutOps == {"next", "snext", "ev", "alw", "until", "evT", "alwT", "untilT"}
UnbFut == {"ev", "alw", "until"}
PastOps == {"prev", "sprev", "once", "hist", "since", "onceT", "histT", "sinceT", "precT", "rise", "fall"}

StdMode == [sem |-> "standard", io |-> <<>>]

---------------------------------------------------------------------------
\* syntactic helpers
RECURSIVE VarsOf(_)
VarsOf(p) == IF p.op = "var" THEN {p.v}
             ELSE IF p.op = "const" THEN {}
             ELSE IF p.op \in Un1 THEN VarsOf(p.l)
             ELSE VarsOf(p.l) \cup VarsOf(p.r)

RECURSIVE SubF(_)
SubF(p) == {p} \cup (IF p.op \in {"var", "const"} THEN {}
                     ELSE IF p.op \in Un1 THEN SubF(p.l)
                     ELSE SubF(p.l) \cup SubF(p.r))

HasOp(p, ops) == \E q \in SubF(p) : q.op \in ops
HasFuture(p) == HasOp(p, FutOps)
HasUnbFuture(p) == HasOp(p, UnbFut)

\* documented sugar (README / property C15):  l unless[a,b] r  ==  always[0,b] l  or  l until[a,b] r.
\* unlessT exists only in ASTs as written; every semantic operator works on Desugar(p).
RECURSIVE Desugar(_)
Desugar(p) ==
  IF p.op \in {"var", "const"} THEN p
  ELSE IF p.op = "unlessT" THEN
       LET l == Desugar(p.l) r == Desugar(p.r) IN
       [op |-> "or", l |-> [op |-> "alwT", l |-> l, a |-> 0, b |-> p.b],
                     r |-> [op |-> "untilT", l |-> l, r |-> r, a |-> p.a, b |-> p.b]]
  ELSE IF p.op \in Un1 THEN [p EXCEPT !.l = Desugar(p.l)]
  ELSE [p EXCEPT !.l = Desugar(p.l), !.r = Desugar(p.r)]

\* the horizon of property C03/C16: largest total of upper bounds (next = 1) along nested future operators
RECURSIVE Hor(_)
Hor(p) == IF p.op \in {"var", "const"} THEN 0
          ELSE IF p.op \in {"next", "snext"} THEN Hor(p.l) + 1
          ELSE IF p.op \in {"evT", "alwT"} THEN Hor(p.l) + p.b
          ELSE IF p.op = "untilT" THEN Max2(Hor(p.l), Hor(p.r)) + p.b
          ELSE IF p.op \in Un1 THEN Hor(p.l)
          ELSE Max2(Hor(p.l), Hor(p.r))

---------------------------------------------------------------------------
\* predicates
PredVal(cmp, x, y) ==
  CASE cmp \in {"ge", "gt"} -> Sub(x, y)
    [] cmp \in {"le", "lt"} -> Sub(y, x)
    [] cmp = "eq" -> Neg(Abs(Sub(x, y)))
    [] cmp = "ne" -> Abs(Sub(x, y))

\* Boolean truth of a comparison of two extended values (IEEE ordering; Undef never reaches here)
PredHolds(cmp, x, y) ==
  CASE cmp = "ge" -> x >= y [] cmp = "gt" -> x > y
    [] cmp = "le" -> x <= y [] cmp = "lt" -> x < y
    [] cmp = "eq" -> x = y  [] cmp = "ne" -> x # y

\* is predicate p insensitive under mode M (mentions no variable of the relevant class)?
Insensitive(p, M) ==
  LET vs == VarsOf(p)
      cls == IF M.sem \in {"out_rob", "out_vac"} THEN "output" ELSE "input" IN
  M.sem # "standard" /\ ~\E v \in vs : M.io[v] = cls

PredIA(p, x, y, M) ==
  IF x = Undef \/ y = Undef THEN Undef
  ELSE IF M.sem = "standard" \/ ~Insensitive(p, M) THEN PredVal(p.cmp, x, y)
  ELSE IF M.sem \in {"out_vac", "in_vac"} THEN 0
  ELSE IF PredHolds(p.cmp, x, y) THEN PInf ELSE NInf

---------------------------------------------------------------------------
\* rho as a signal transformer
Win(N, lo, hi) == {j \in 1..N : lo <= j /\ j <= hi}

RECURSIVE Sig(_, _, _, _, _)
Sig(p, W, N, S, M) ==
  LET T == 1..N IN
  IF p.op = "var" THEN W[p.v]
  ELSE IF p.op = "const" THEN [t \in T |-> p.c]
  ELSE IF p.op \in Un1 THEN
    LET L == Sig(p.l, W, N, S, M) IN
    CASE p.op = "abs"   -> [t \in T |-> Abs(L[t])]
      [] p.op = "neg"   -> [t \in T |-> Neg(L[t])]
      [] p.op = "sqrt"  -> [t \in T |-> Sqrt(L[t], S)]
      [] p.op = "exp"   -> [t \in T |-> IF L[t] = 0 THEN S ELSE IF L[t] = NInf THEN 0 ELSE IF L[t] = PInf THEN PInf ELSE Undef]
      [] p.op = "ln"    -> [t \in T |-> IF L[t] = S THEN 0 ELSE IF L[t] = PInf THEN PInf ELSE Undef]
      [] p.op = "not"   -> [t \in T |-> Neg(L[t])]
      [] p.op = "rise"  -> [t \in T |-> IF t = 1 THEN L[1] ELSE Min2(Neg(L[t-1]), L[t])]
      [] p.op = "fall"  -> [t \in T |-> IF t = 1 THEN Neg(L[1]) ELSE Min2(L[t-1], Neg(L[t]))]
      [] p.op = "prev"  -> [t \in T |-> IF t = 1 THEN PInf ELSE L[t-1]]
      [] p.op = "sprev" -> [t \in T |-> IF t = 1 THEN NInf ELSE L[t-1]]
      [] p.op = "next"  -> [t \in T |-> IF t = N THEN PInf ELSE L[t+1]]
      [] p.op = "snext" -> [t \in T |-> IF t = N THEN NInf ELSE L[t+1]]
      [] p.op = "once"  -> [t \in T |-> SetMax({L[j] : j \in 1..t})]
      [] p.op = "hist"  -> [t \in T |-> SetMin({L[j] : j \in 1..t})]
      [] p.op = "ev"    -> [t \in T |-> SetMax({L[j] : j \in t..N})]
      [] p.op = "alw"   -> [t \in T |-> SetMin({L[j] : j \in t..N})]
      [] p.op = "onceT" -> [t \in T |-> SetMax({L[j] : j \in Win(N, t - p.b, t - p.a)})]
      [] p.op = "histT" -> [t \in T |-> SetMin({L[j] : j \in Win(N, t - p.b, t - p.a)})]
      [] p.op = "evT"   -> [t \in T |-> SetMax({L[j] : j \in Win(N, t + p.a, t + p.b)})]
      [] p.op = "alwT"  -> [t \in T |-> SetMin({L[j] : j \in Win(N, t + p.a, t + p.b)})]
  ELSE
    LET L == Sig(p.l, W, N, S, M)
        R == Sig(p.r, W, N, S, M) IN
    CASE p.op = "add"     -> [t \in T |-> Add(L[t], R[t])]
      [] p.op = "sub"     -> [t \in T |-> Sub(L[t], R[t])]
      [] p.op = "mul"     -> [t \in T |-> Mul(L[t], R[t], S)]
      [] p.op = "div"     -> [t \in T |-> Div(L[t], R[t], S)]
      [] p.op = "pow"     -> [t \in T |-> Pow(L[t], R[t], S)]
      [] p.op = "log"     -> [t \in T |-> IF L[t] = S /\ IsFin(R[t]) /\ R[t] > S THEN 0 ELSE Undef]
      [] p.op = "pred"    -> [t \in T |-> PredIA(p, L[t], R[t], M)]
      [] p.op = "and"     -> [t \in T |-> Min2(L[t], R[t])]
      [] p.op = "or"      -> [t \in T |-> Max2(L[t], R[t])]
      [] p.op = "implies" -> [t \in T |-> Max2(Neg(L[t]), R[t])]
      [] p.op = "iff"     -> [t \in T |-> Neg(Abs(Sub(L[t], R[t])))]
      [] p.op = "xor"     -> [t \in T |-> Abs(Sub(L[t], R[t]))]
      [] p.op = "since"   -> [t \in T |-> SetMax({Min2(R[j], SetMin({L[i] : i \in (j+1)..t})) : j \in 1..t})]
      [] p.op = "until"   -> [t \in T |-> SetMax({Min2(R[j], SetMin({L[i] : i \in t..(j-1)})) : j \in t..N})]
      [] p.op = "sinceT"  -> [t \in T |-> SetMax({Min2(R[j], SetMin({L[i] : i \in (j+1)..t})) : j \in Win(N, t - p.b, t - p.a)})]
      [] p.op = "untilT"  -> [t \in T |-> SetMax({Min2(R[j], SetMin({L[i] : i \in t..(j-1)})) : j \in Win(N, t + p.a, t + p.b)})]
      \* precedes[a,b](l, r) at t  =  (l until[a,b] r) evaluated at t - b over the samples seen so far;
      \* positions before the first sample read l = +inf, r = -inf (the pre-filled buffers)
      [] p.op = "precT"   -> [t \in T |->
             LET t0 == t - p.b
                 LL(i) == IF i < 1 THEN PInf ELSE L[i]
                 RR(i) == IF i < 1 THEN NInf ELSE R[i] IN
             SetMax({Min2(RR(j), SetMin({LL(i) : i \in t0..(j-1)})) : j \in (t0 + p.a)..(t0 + p.b)})]

Rho(p, W, N, S, t) == Sig(p, W, N, S, StdMode)[t]

---------------------------------------------------------------------------
\* Boolean satisfaction (property C07/C20), same domain conventions; defined independently of Sig.
RECURSIVE Val(_, _, _, _)      \* arithmetic terms only
Val(p, W, N, S) ==
  LET T == 1..N IN
  IF p.op = "var" THEN W[p.v]
  ELSE IF p.op = "const" THEN [t \in T |-> p.c]
  ELSE IF p.op \in {"abs", "neg", "sqrt"} THEN
    LET L == Val(p.l, W, N, S) IN
    CASE p.op = "abs" -> [t \in T |-> Abs(L[t])]
      [] p.op = "neg" -> [t \in T |-> Neg(L[t])]
      [] p.op = "sqrt" -> [t \in T |-> Sqrt(L[t], S)]
  ELSE IF p.op \in {"add", "sub", "mul", "div", "pow"} THEN
    LET L == Val(p.l, W, N, S)
        R == Val(p.r, W, N, S) IN
    CASE p.op = "add" -> [t \in T |-> Add(L[t], R[t])]
      [] p.op = "sub" -> [t \in T |-> Sub(L[t], R[t])]
      [] p.op = "mul" -> [t \in T |-> Mul(L[t], R[t], S)]
      [] p.op = "div" -> [t \in T |-> Div(L[t], R[t], S)]
      [] p.op = "pow" -> [t \in T |-> Pow(L[t], R[t], S)]
  ELSE [t \in T |-> Undef]

\* Boolean-level operators of the fragment Sat is defined on
BoolOps == {"pred", "not", "and", "or", "implies", "iff", "xor", "rise", "fall", "prev", "sprev",
            "next", "snext", "once", "hist", "ev", "alw", "since", "until",
            "onceT", "histT", "evT", "alwT", "sinceT", "untilT"}
RECURSIVE IsBoolFormula(_)
IsBoolFormula(p) ==
  IF p.op = "pred" THEN TRUE
  ELSE IF p.op \notin BoolOps THEN FALSE
  ELSE IF p.op \in Un1 THEN IsBoolFormula(p.l)
  ELSE IsBoolFormula(p.l) /\ IsBoolFormula(p.r)

RECURSIVE Sat(_, _, _, _)
Sat(p, W, N, S) ==
  LET T == 1..N IN
  IF p.op = "pred" THEN
    LET L == Val(p.l, W, N, S)
        R == Val(p.r, W, N, S) IN
    [t \in T |-> PredHolds(p.cmp, L[t], R[t])]
  ELSE IF p.op \in Un1 THEN
    LET L == Sat(p.l, W, N, S) IN
    CASE p.op = "not"   -> [t \in T |-> ~L[t]]
      [] p.op = "rise"  -> [t \in T |-> IF t = 1 THEN L[1] ELSE ~L[t-1] /\ L[t]]
      [] p.op = "fall"  -> [t \in T |-> IF t = 1 THEN ~L[1] ELSE L[t-1] /\ ~L[t]]
      [] p.op = "prev"  -> [t \in T |-> IF t = 1 THEN TRUE ELSE L[t-1]]
      [] p.op = "sprev" -> [t \in T |-> IF t = 1 THEN FALSE ELSE L[t-1]]
      [] p.op = "next"  -> [t \in T |-> IF t = N THEN TRUE ELSE L[t+1]]
      [] p.op = "snext" -> [t \in T |-> IF t = N THEN FALSE ELSE L[t+1]]
      [] p.op = "once"  -> [t \in T |-> \E j \in 1..t : L[j]]
      [] p.op = "hist"  -> [t \in T |-> \A j \in 1..t : L[j]]
      [] p.op = "ev"    -> [t \in T |-> \E j \in t..N : L[j]]
      [] p.op = "alw"   -> [t \in T |-> \A j \in t..N : L[j]]
      [] p.op = "onceT" -> [t \in T |-> \E j \in Win(N, t - p.b, t - p.a) : L[j]]
      [] p.op = "histT" -> [t \in T |-> \A j \in Win(N, t - p.b, t - p.a) : L[j]]
      [] p.op = "evT"   -> [t \in T |-> \E j \in Win(N, t + p.a, t + p.b) : L[j]]
      [] p.op = "alwT"  -> [t \in T |-> \A j \in Win(N, t + p.a, t + p.b) : L[j]]
  ELSE
    LET L == Sat(p.l, W, N, S)
        R == Sat(p.r, W, N, S) IN
    CASE p.op = "and"     -> [t \in T |-> L[t] /\ R[t]]
      [] p.op = "or"      -> [t \in T |-> L[t] \/ R[t]]
      [] p.op = "implies" -> [t \in T |-> L[t] => R[t]]
      [] p.op = "iff"     -> [t \in T |-> L[t] <=> R[t]]
      [] p.op = "xor"     -> [t \in T |-> ~(L[t] <=> R[t])]
      [] p.op = "since"   -> [t \in T |-> \E j \in 1..t : R[j] /\ \A i \in (j+1)..t : L[i]]
      [] p.op = "until"   -> [t \in T |-> \E j \in t..N : R[j] /\ \A i \in t..(j-1) : L[i]]
      [] p.op = "sinceT"  -> [t \in T |-> \E j \in Win(N, t - p.b, t - p.a) : R[j] /\ \A i \in (j+1)..t : L[i]]
      [] p.op = "untilT"  -> [t \in T |-> \E j \in Win(N, t + p.a, t + p.b) : R[j] /\ \A i \in t..(j-1) : L[i]]

\* every predicate compares one variable with a (possibly negated) constant
VarConstPreds(p) == \A q \in SubF(p) : q.op = "pred" =>
   (q.l.op = "var" /\ (q.r.op = "const" \/ (q.r.op = "neg" /\ q.r.l.op = "const")))

\* does any predicate operand evaluate to Undef on W ?
RECURSIVE SatUndef(_, _, _, _)
SatUndef(p, W, N, S) ==
  IF p.op = "pred" THEN HasUndef(Val(p.l, W, N, S)) \/ HasUndef(Val(p.r, W, N, S))
  ELSE IF p.op \in Un1 THEN SatUndef(p.l, W, N, S)
  ELSE SatUndef(p.l, W, N, S) \/ SatUndef(p.r, W, N, S)


---------------------------------------------------------------------------
\* Two ASTs denote the same signal transformer on every short trace over Vs.  Used by the trace specifications when the AST
\* read back from the parser is not literally the expected one: a parser that folds constants, shares or re-associates nodes
\* builds a different tree for the same meaning, which no property forbids - only a tree that means something else is a defect
SemEqOn(p, q, vs, Vs, S, M) ==
  LET maxN == IF Cardinality(vs) <= 1 THEN 3 ELSE IF Cardinality(vs) = 2 THEN 2 ELSE 1 IN
  \A n \in 1..maxN : \A W \in [vs -> [1..n -> Vs]] : Sig(p, W, n, S, M) = Sig(q, W, n, S, M)
SemEq(p, q, S, M) == LET vs == VarsOf(p) \cup VarsOf(q) IN
                     IF vs = {} THEN Sig(p, <<>>, 2, S, M) = Sig(q, <<>>, 2, S, M)
                     ELSE SemEqOn(p, q, vs, {-2 * S, S, 3 * S}, S, M)
=============================================================================
