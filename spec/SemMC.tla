------------------------------- MODULE SemMC -------------------------------
(***************************************************************************)
(* Model-checking harness for theorems about the semantics itself: the     *)
(* state is a trace W that grows by one sample per step, so every trace    *)
(* over Vals up to MaxLen is a state and every invariant below is checked  *)
(* on every trace.                                                         *)
(*   PairsEq   : for each <<lhs, rhs>> in Pairs, Sig(lhs) = Sig(rhs)       *)
(*               (C18: dualities and expansion laws; C09: inlining)        *)
(*   PointwiseEq : Sig agrees with the README's pointwise inductive        *)
(*               definition RhoPt (C01: two independent formulations)      *)
(*   SignSound : Sig > 0 => Sat, Sig < 0 => ~Sat for iff/xor-free          *)
(*               formulas (C07)                                            *)
(*   BallSound : every trace within |rho| of W has the same verdict (C07)  *)
(***************************************************************************)
EXTENDS Dense, Offline

CONSTANTS Pairs, Forms, Vars, Vals, MaxLen, S

VARIABLE W
Init == W = [v \in Vars |-> <<>>]
LenOf(X) == Len(X[CHOOSE v \in Vars : TRUE])
Next == LenOf(W) < MaxLen /\ \E s \in [Vars -> Vals] : W' = [v \in Vars |-> Append(W[v], s[v])]
Spec == Init /\ [][Next]_W

EqModUndef(a, b) == \A t \in 1..Len(a) : a[t] = Undef \/ b[t] = Undef \/ a[t] = b[t]

PairsEq == LET N == LenOf(W) IN N > 0 =>
             \A pr \in Pairs : EqModUndef(Sig(pr[1], W, N, S, StdMode), Sig(pr[2], W, N, S, StdMode))

\* the README's inductive definition, pointwise and recursive on (formula, time)
RECURSIVE RhoPt(_, _, _, _)
RhoPt(p, X, N, t) ==
  CASE p.op = "var"   -> X[p.v][t]
    [] p.op = "const" -> p.c
    [] p.op = "abs"   -> Abs(RhoPt(p.l, X, N, t))
    [] p.op = "neg"   -> Neg(RhoPt(p.l, X, N, t))
    [] p.op = "add"   -> Add(RhoPt(p.l, X, N, t), RhoPt(p.r, X, N, t))
    [] p.op = "sub"   -> Sub(RhoPt(p.l, X, N, t), RhoPt(p.r, X, N, t))
    [] p.op = "mul"   -> Mul(RhoPt(p.l, X, N, t), RhoPt(p.r, X, N, t), S)
    [] p.op = "pred"  -> PredVal(p.cmp, RhoPt(p.l, X, N, t), RhoPt(p.r, X, N, t))
    [] p.op = "not"   -> Neg(RhoPt(p.l, X, N, t))
    [] p.op = "and"   -> Min2(RhoPt(p.l, X, N, t), RhoPt(p.r, X, N, t))
    [] p.op = "or"    -> Max2(RhoPt(p.l, X, N, t), RhoPt(p.r, X, N, t))
    [] p.op = "implies" -> Max2(Neg(RhoPt(p.l, X, N, t)), RhoPt(p.r, X, N, t))
    [] p.op = "iff"   -> Neg(Abs(Sub(RhoPt(p.l, X, N, t), RhoPt(p.r, X, N, t))))
    [] p.op = "xor"   -> Abs(Sub(RhoPt(p.l, X, N, t), RhoPt(p.r, X, N, t)))
    [] p.op = "rise"  -> IF t = 1 THEN RhoPt(p.l, X, N, t) ELSE Min2(Neg(RhoPt(p.l, X, N, t-1)), RhoPt(p.l, X, N, t))
    [] p.op = "fall"  -> IF t = 1 THEN Neg(RhoPt(p.l, X, N, t)) ELSE Min2(RhoPt(p.l, X, N, t-1), Neg(RhoPt(p.l, X, N, t)))
    [] p.op = "prev"  -> IF t = 1 THEN PInf ELSE RhoPt(p.l, X, N, t-1)
    [] p.op = "sprev" -> IF t = 1 THEN NInf ELSE RhoPt(p.l, X, N, t-1)
    [] p.op = "next"  -> IF t = N THEN PInf ELSE RhoPt(p.l, X, N, t+1)
    [] p.op = "snext" -> IF t = N THEN NInf ELSE RhoPt(p.l, X, N, t+1)
    [] p.op = "once"  -> SetMax({RhoPt(p.l, X, N, j) : j \in 1..t})
    [] p.op = "hist"  -> SetMin({RhoPt(p.l, X, N, j) : j \in 1..t})
    [] p.op = "ev"    -> SetMax({RhoPt(p.l, X, N, j) : j \in t..N})
    [] p.op = "alw"   -> SetMin({RhoPt(p.l, X, N, j) : j \in t..N})
    \* recursive characterisations of since / until (property C18's last law) used as the definition here
    [] p.op = "since" -> IF t = 1 THEN RhoPt(p.r, X, N, 1)
                         ELSE Max2(RhoPt(p.r, X, N, t), Min2(RhoPt(p.l, X, N, t), RhoPt(p, X, N, t-1)))
    [] p.op = "until" -> IF t = N THEN RhoPt(p.r, X, N, N)
                         ELSE Max2(RhoPt(p.r, X, N, t), Min2(RhoPt(p.l, X, N, t), RhoPt(p, X, N, t+1)))
    [] p.op = "onceT" -> IF t - p.a < 1 THEN NInf ELSE SetMax({RhoPt(p.l, X, N, j) : j \in Win(N, t - p.b, t - p.a)})
    [] p.op = "histT" -> IF t - p.a < 1 THEN PInf ELSE SetMin({RhoPt(p.l, X, N, j) : j \in Win(N, t - p.b, t - p.a)})
    [] p.op = "evT"   -> IF t + p.a > N THEN NInf ELSE SetMax({RhoPt(p.l, X, N, j) : j \in Win(N, t + p.a, t + p.b)})
    [] p.op = "alwT"  -> IF t + p.a > N THEN PInf ELSE SetMin({RhoPt(p.l, X, N, j) : j \in Win(N, t + p.a, t + p.b)})
    [] p.op = "sinceT" -> IF t - p.a < 1 THEN NInf ELSE
         SetMax({Min2(RhoPt(p.r, X, N, j), SetMin({RhoPt(p.l, X, N, i) : i \in (j+1)..t})) : j \in Win(N, t - p.b, t - p.a)})
    [] p.op = "untilT" -> IF t + p.a > N THEN NInf ELSE
         SetMax({Min2(RhoPt(p.r, X, N, j), SetMin({RhoPt(p.l, X, N, i) : i \in t..(j-1)})) : j \in Win(N, t + p.a, t + p.b)})

PointwiseEq == LET N == LenOf(W) IN N > 0 =>
   \A p \in Forms : LET sg == Sig(p, W, N, S, StdMode) IN
                    \A t \in 1..N : LET r == RhoPt(p, W, N, t) IN r = Undef \/ sg[t] = Undef \/ sg[t] = r

\* C18 in dense time: the laws hold for the cell semantics SigC as well (the state W is read as a cell sequence)
PairsEqDense == LET N == LenOf(W) IN N > 0 =>
             \A pr \in Pairs : (DenseOK(pr[1]) /\ DenseOK(pr[2])) =>
                 EqModUndef(SigC(pr[1], W, N, S, StdMode), SigC(pr[2], W, N, S, StdMode))

\* C19: on step signals that change only at the sampling instants (period 1) the dense-time robustness at
\* sampling instant k equals the discrete-time robustness at sample k, as long as k + horizon < |w|.
\* The cells of the stretched signal are the samples themselves (the last cell is the held tail).
C19Frag(p) == ~HasOp(p, {"since", "until", "sinceT", "untilT", "prev", "sprev", "next", "snext", "rise", "fall",
                         "ev", "alw", "precT"})
DenseEqDiscrete == LET N == LenOf(W) IN N > 0 =>
   \A p \in Forms : C19Frag(p) =>
      LET d == Sig(p, W, N, S, StdMode) c == SigC(p, W, N, S, StdMode) h == Hor(p) IN
      \A k \in 1..N : (k + h <= N) => (d[k] = Undef \/ c[k] = Undef \/ d[k] = c[k])

\* C01 / C16: the list algorithms of the offline visitors (Offline.tla) compute the declarative semantics
OfflineRefines == LET N == LenOf(W) IN N > 0 =>
   \A p \in Forms : LET a == OffEval(p, W, N, S, StdMode) b == Sig(p, W, N, S, StdMode) IN
                    Len(a) = N /\ \A t \in 1..N : a[t] = Undef \/ b[t] = Undef \/ a[t] = b[t]

\* C07, sign: strictly positive robustness implies satisfaction, strictly negative implies violation
IffXorFree(p) == ~HasOp(p, {"iff", "xor"})
SignSound == LET N == LenOf(W) IN N > 0 =>
   \A p \in Forms : (IffXorFree(p) /\ IsBoolFormula(p)) =>
      LET sg == Sig(p, W, N, S, StdMode) st == Sat(p, W, N, S) IN
      \A t \in 1..N : sg[t] = Undef \/ ((sg[t] > 0 => st[t]) /\ (sg[t] < 0 => ~st[t]))

\* C07, magnitude: a trace over the half-lattice whose samples all differ by less than |rho| gets the same verdict
\* (Lattice = values the perturbed samples may take)
CONSTANT Lattice
Dist(a, b) == IF a >= b THEN a - b ELSE b - a
\* traces whose every sample is strictly closer than r to the corresponding sample of W (on the lattice)
NearSeqs(v, N, r) == {q \in [1..N -> Lattice] : \A k \in 1..N : Dist(q[k], W[v][k]) < r}
BallTraces(N, r) == LET U == UNION {NearSeqs(v, N, r) : v \in Vars} IN
                    {X \in [Vars -> U] : \A v \in Vars : X[v] \in NearSeqs(v, N, r)}
BallSound == LET N == LenOf(W) IN N > 0 =>
   \A p \in Forms : (IffXorFree(p) /\ IsBoolFormula(p)) =>
      LET sg == Sig(p, W, N, S, StdMode) st == Sat(p, W, N, S) IN
      \A t \in 1..N : (IsFin(sg[t]) /\ sg[t] # 0) =>
         \A X \in BallTraces(N, Abs(sg[t])) : Sat(p, X, N, S)[t] = st[t]
=============================================================================
