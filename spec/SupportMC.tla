----------------------------- MODULE SupportMC -----------------------------
(***************************************************************************)
(* Property C17 at the level of the specification: the guards that say     *)
(* which constructs a monitor kind supports (the outcome machine of        *)
(* TraceDt / TraceCt: Online!OnlineOK, Past!Pastifiable, Dense!DenseOK,    *)
(* DenseOn!OnlineCOK, DenseOff!OfflineCOK) are consistent with the         *)
(* semantics and the operational models: a supported formula always has a  *)
(* value, and pastification leads from the bounded-future fragment into    *)
(* the fragment the online monitors support.  One state per formula.       *)
(*   PastifyClosed   Pastifiable(p) => Pastify(p) is future-free, online-  *)
(*                   monitorable, and keeps the variables                  *)
(*   DiscreteTotal   the discrete semantics Sig and the online operator    *)
(*                   model give a (non-Undef) value on finite inputs       *)
(*                   whenever the formula has no partial arithmetic        *)
(*   DenseTotal      DenseOK(p) => SigC defined; OfflineCOK / OnlineCOK    *)
(*                   => the operational models return without error on a   *)
(*                   one-sample and a two-sample input                     *)
(***************************************************************************)
EXTENDS Rtamt, DenseOff, TLC
CONSTANTS SFormulas
VARIABLES f, ready
svars == <<f, ready, ms>>
SInit == f = [op |-> "null"] /\ ready = FALSE /\ ms = <<>>      \* (ms: the variable of Rtamt, unused here)
SNext == ~ready /\ ready' = TRUE /\ f' \in SFormulas /\ UNCHANGED ms
SSpec == SInit /\ [][SNext]_svars

StdM(vs) == [sem |-> "standard", io |-> [v \in vs |-> "output"]]
Partial(p) == HasOp(p, {"div", "sqrt", "exp", "ln", "pow", "log"})
W1(vs) == [v \in vs |-> <<1>>]
W2(vs) == [v \in vs |-> <<1, -2>>]
C2(vs) == [v \in vs |-> <<<<0, 1>>, <<2, -2>>>>]       \* dense: samples <<time, value>>

PastifyClosed ==
  (ready /\ Pastifiable(f)) =>
     LET q == Pastify(f, {}) IN ~HasFuture(q) /\ OnlineOK(q) /\ VarsOf(q) \subseteq VarsOf(f)
DiscreteTotal ==
  (ready /\ ~Partial(f) /\ VarsOf(f) # {}) =>
     LET vs == VarsOf(f) IN
     /\ ~HasUndef(Sig(f, W2(vs), 2, 1, StdM(vs)))
     /\ (OnlineOK(f) => ~HasUndef(<<Out(f, InitOn(f), [v \in vs |-> 1], 1, StdM(vs))>>))
DenseTotal ==
  (ready /\ ~Partial(f) /\ VarsOf(f) # {}) =>
     LET vs == VarsOf(f) IN
     /\ (DenseOK(f) => ~HasUndef(SigC(f, [v \in vs |-> <<1, -2, -2>>], 3, 1, StdM(vs))))
     /\ (OfflineCOK(f) => ~OffC(f, C2(vs), 1).err)
     /\ (OnlineCOK(f) => ~UpdateC(f, InitMemC(f), C2(vs), 1, {}).err)
=============================================================================
