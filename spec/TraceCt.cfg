SPECIFICATION TSpec
