------------------------------ MODULE TraceCt ------------------------------
(***************************************************************************)
(* Dense-time objects: contract machine and trace validation.              *)
(*                                                                         *)
(* An object record holds                                                  *)
(*   cfg   [S, M, vars]                                                    *)
(*   phase "new" | "parsed" | "pastified" | "offline" | "online"           *)
(*   phi   the AST as written, inst the AST installed (pastified or not)    *)
(*   fed   [var -> sample list]  everything supplied so far (online: the   *)
(*         concatenation of the batches of all update() calls)             *)
(*   emitted  concatenation of the sample lists returned so far            *)
(* Times of inputs are integers; times of returned samples are recorded    *)
(* doubled (2*t) so that a sample the implementation puts on a half-       *)
(* integer instant is still representable.                                 *)
(*                                                                         *)
(* Contract of evaluate() (property C04): non-decreasing time-stamps, the  *)
(* first sample at the begin of the common input domain, and the step      *)
(* function it denotes equals Dense!SigC at every cell start and at every  *)
(* cell mid-point of the domain.                                           *)
(* Contract of update() (property C05): the concatenation of everything    *)
(* returned so far has non-decreasing time-stamps and, wherever it is      *)
(* defined (between its first and last time-stamp), denotes SigC of the    *)
(* whole signal (delayed by the horizon after pastify()).  How the input   *)
(* was cut into batches does not occur in the contract at all.             *)
(***************************************************************************)
EXTENDS DenseOff, Past, Norm, Json, IOUtils, TLCExt

Cases == JsonDeserialize(IOEnv.TRACE_FILE)
NCases == Len(Cases)

Bad == 1999999998
NoExc == ""
Null == [op |-> "null"]

VARIABLES tid, l, ms, fail, info
tvars == <<tid, l, ms, fail, info>>

SeqToSet(s) == {s[i] : i \in 1..Len(s)}
NewObj(o) == [cfg |-> [S |-> o.S, M |-> o.mode, vars |-> SeqToSet(o.vars)],
              phase |-> "new", phi |-> Null, inst |-> Null,
              fed |-> [v \in SeqToSet(o.vars) |-> <<>>], emitted |-> <<>>, nupd |-> 0, mu |-> 0, last |-> <<>>, rets |-> <<>>, lastw |-> <<>>,
              dead |-> FALSE, poisoned |-> FALSE, gets |-> <<>>,
              \* binding to the operational model DenseOn!UpdateC: its memory, whether it applies, first update that differed
              mem |-> <<>>, modelled |-> FALSE, drift |-> 0, compared |-> 0, mout |-> <<>>]
InitMs(c) == [i \in 1..Len(c.objs) |-> NewObj(c.objs[i])]
NoCase == [objs |-> <<>>, events |-> <<>>, rels |-> <<>>, tid |-> 0, skip |-> <<>>]
CaseAt(i) == IF i <= NCases THEN Cases[i] ELSE NoCase

F(clause, step, exp, got) == <<[clause |-> clause, step |-> step, exp |-> exp, got |-> got]>>
Ok == <<>>
R(m, f, u) == [m |-> m, f |-> f, u |-> u]

ExcClass(expectedOk, e, clause, step) ==
  IF expectedOk THEN (IF e.exc = NoExc THEN Ok ELSE F(clause, step, "ok", e.exc))
  ELSE (IF e.exc = "RTAMT" THEN Ok ELSE F(clause, step, "RTAMT", IF e.exc = NoExc THEN "ok" ELSE e.exc))

ArithExc == {"other:ZeroDivisionError", "other:ValueError", "other:OverflowError"}

---------------------------------------------------------------------------
\* denotation of the whole fed signal on cells, and comparison of a returned list with it

UsedVars(m) == m.cfg.vars
HasData(m) == \A v \in UsedVars(m) : m.fed[v] # <<>>
D0(m) == DomBegin(m.fed, UsedVars(m))
D1(m) == DomEnd(m.fed, UsedVars(m))
\* (the first d1 - d0 + 1 cells of the result are the domain; the rest is the settling extension)
\* (signals may begin at different times: every sub-formula is evaluated on its own domain, Dense!SigD)
\* (when the signals begin together SigD is SigC on the common domain - theorem DenseOffMC!SigDIsSigC - and SigC is cheaper)
Expected(m, p) == IF SameStart(m.fed, UsedVars(m))
                  THEN LET d0 == D0(m) d1 == D1(m) + Settle(p) n == d1 - d0 + 1 IN
                       SigC(p, CellsOf(m.fed, UsedVars(m), d0, d1), n, m.cfg.S, m.cfg.M)
                  ELSE SigOnDomain(p, m.fed, UsedVars(m), D1(m) + Settle(p), m.cfg.S, m.cfg.M)
AnyUndef(m, p) == IF SameStart(m.fed, UsedVars(m))
                  THEN LET d0 == D0(m) d1 == D1(m) + Settle(p) n == d1 - d0 + 1
                           C == CellsOf(m.fed, UsedVars(m), d0, d1) IN
                       \E q \in SubF(p) : HasUndef(SigC(q, C, n, m.cfg.S, m.cfg.M))
                  ELSE UndefSomewhere(p, m.fed, UsedVars(m), D1(m) + Settle(p), m.cfg.S, m.cfg.M)

\* first cell (1-based) at which the step function `out` (doubled times) differs from `ex`, shifted by h cells,
\* looking only at instants between lo2 and hi2 (doubled times); 0 if none
Mismatch(out, ex, d0, n, h, lo2, hi2) ==
  LET bad == {k \in 1..n :
                LET t2 == 2 * (d0 + k - 1 + h) IN
                \/ (lo2 <= t2 /\ t2 <= hi2 /\ ex[k] # Undef /\ StepAt(out, t2) # ex[k])
                \/ (k < n /\ lo2 <= t2 + 1 /\ t2 + 1 <= hi2 /\ ex[k] # Undef /\ StepAt(out, t2 + 1) # ex[k])} IN
  IF bad = {} THEN 0 ELSE CHOOSE k \in bad : \A j \in bad : k <= j

---------------------------------------------------------------------------
\* The operational model of the online monitor (DenseOn.tla) runs next to the contract: it is installed for the AST
\* in force when it covers all its operators (standard semantics), and every update() is also given to it.
\* A difference (returned batch, error path) is recorded as model drift - a diagnostic, not a verdict.
Install(m) == IF OnlineCOK(m.inst)
              THEN [m EXCEPT !.mem = InitMemC(m.inst), !.modelled = TRUE, !.mout = <<>>]
              ELSE [m EXCEPT !.mem = <<>>, !.modelled = FALSE, !.mout = <<>>]
Doubled(sl) == [i \in 1..Len(sl) |-> <<IF sl[i][1] >= PInf THEN PInf ELSE 2 * sl[i][1], sl[i][2]>>]
HasUndefL(sl) == \E i \in 1..Len(sl) : sl[i][2] = Undef
ModelStep(m, e) ==
  IF ~m.modelled THEN m
  \* a NaN somewhere inside (inf - inf under iff / xor / ==): Python's min / max / comparisons with NaN are order-dependent,
  \* the model's Undef is not meant to mirror them
  ELSE IF HasData(m) /\ AnyUndef(m, m.phi) THEN [m EXCEPT !.modelled = FALSE]
  ELSE
    LET batch == [v \in VarsOf(m.inst) |-> IF v \in DOMAIN e.w THEN e.w[v] ELSE <<>>]
        r == UpdateCM(m.inst, m.mem, batch, m.cfg.S, {}, m.cfg.M)
        differs == r.err # (e.exc # NoExc) \/ (~r.err /\ Doubled(r.ret) # e.ret) IN
    IF r.err \/ HasUndefL(r.ret) THEN [m EXCEPT !.modelled = FALSE, !.drift = IF r.err /\ differs /\ m.drift = 0 THEN m.nupd ELSE m.drift]
    ELSE [m EXCEPT !.mem = r.M, !.mout = m.mout \o Doubled(r.ret),
                   !.drift = IF differs /\ m.drift = 0 THEN m.nupd ELSE m.drift,
                   !.compared = IF differs \/ m.drift # 0 THEN m.compared ELSE m.compared + 1]
\* offline: evaluate() is also computed by the operational model DenseOff!OffC
ModelEval(m, e) ==
  IF ~OfflineCOK(m.phi) \/ \E v \in VarsOf(m.phi) : v \notin DOMAIN e.w THEN [m EXCEPT !.modelled = FALSE]
  ELSE
    LET r == IF HasData(m) /\ AnyUndef(m, m.phi) THEN [err |-> TRUE, out |-> <<>>]
             ELSE OffCM(m.phi, [v \in VarsOf(m.phi) |-> e.w[v]], m.cfg.S, m.cfg.M) IN
    IF HasData(m) /\ AnyUndef(m, m.phi) THEN [m EXCEPT !.modelled = FALSE]
    ELSE IF r.err \/ HasUndefL(r.out) THEN [m EXCEPT !.modelled = FALSE, !.drift = IF r.err /\ e.exc = NoExc THEN 1 ELSE 0]
    ELSE [m EXCEPT !.modelled = TRUE, !.mout = Doubled(r.out),
                   !.drift = IF e.exc # NoExc \/ Doubled(r.out) # e.ret THEN 1 ELSE 0,
                   !.compared = IF e.exc = NoExc /\ Doubled(r.out) = e.ret THEN m.compared + 1 ELSE m.compared]
\* the real monitor and the operational model returned the same step function (whatever the batching of equal samples)
SameAsModel(m) ==
  m.modelled /\ (m.emitted = <<>>) = (m.mout = <<>>) /\
  (m.emitted = <<>> \/ (Monotone(m.emitted) /\ FirstT(m.emitted) = FirstT(m.mout) /\ LastT(m.emitted) = LastT(m.mout) /\
                        \A t2 \in FirstT(m.emitted)..LastT(m.emitted) : StepAt(m.emitted, t2) = StepAt(m.mout, t2)))

\* dense time: a bound denotes duration / default unit time units; the model needs whole cells (other cases skipped)
IsWritten(obj) == "written" \in DOMAIN obj
DenseU(obj) == [def |-> obj.units.def, pnum |-> 1, pden |-> 1, punit |-> obj.units.def]
ApplyParse(m, e, obj, step) ==
  IF IsWritten(obj) /\ NormStatus(obj.written, DenseU(obj)) # "ok" THEN R([m EXCEPT !.dead = TRUE], Ok, 1) ELSE
  LET f1 == ExcClass(TRUE, e, "parse.exc", step)
      phi0 == Desugar(IF IsWritten(obj) THEN NormAst(obj.written, DenseU(obj)) ELSE obj.phi)
      impl == IF IsWritten(obj) /\ obj.implAst.op # "none" THEN NormAst(obj.implAst, DenseU(obj)) ELSE obj.implAst
      \* (a tree that differs from the expected one but denotes the same signal transformer on all short cell sequences -
      \*  constants folded, nodes shared or re-associated - is no defect)
      f2 == IF f1 = Ok /\ obj.implKnown /\ impl # phi0 /\ ~SemEqC(Desugar(impl), phi0, m.cfg.S, m.cfg.M)
            THEN F("parse.ast", step, phi0, impl) ELSE Ok IN
  \* (after a parse() that failed although it must succeed the object is not examined any further: the failure is recorded)
  IF f1 # Ok THEN R([m EXCEPT !.dead = TRUE], f1, 0) ELSE
  R(Install([m EXCEPT !.phase = "parsed", !.phi = phi0, !.inst = phi0]), f1 \o f2, 0)

\* next / s_next (like prev, rise, fall) have no dense-time meaning: pastify() would translate them away, so a specification
\* that contains them must be rejected by pastify() itself or by the first update() - it must never yield a value (C17)
DenseNoMeaning(p) == HasOp(p, {"next", "snext", "prev", "sprev", "rise", "fall"})
ApplyPastify(m, e, step) ==
  IF Pastifiable(m.phi) /\ DenseNoMeaning(m.phi) THEN
    (IF e.exc = "RTAMT" THEN R([m EXCEPT !.dead = TRUE], Ok, 0)
     ELSE R([m EXCEPT !.phase = "pastified", !.inst = [op |-> "next", l |-> m.phi]], ExcClass(TRUE, e, "pastify.exc", step), 0))
  ELSE IF Pastifiable(m.phi) THEN R(Install([m EXCEPT !.phase = "pastified", !.inst = Pastify(m.phi, {})]),
                               ExcClass(TRUE, e, "pastify.exc", step), 0)
  ELSE R(m, ExcClass(FALSE, e, "pastify.exc", step), 0)

\* offline evaluate(): C04
ApplyEvaluate(m, e, step) ==
  LET m1 == [m EXCEPT !.phase = "offline", !.fed = e.w, !.emitted = e.ret] IN
  IF ~DenseOK(m.phi) THEN R(m1, ExcClass(FALSE, e, "evaluate.exc", step), 0)
  ELSE IF AnyUndef(m1, m.phi) THEN
       \* (an evaluate() that raised leaves the object as it was; one that returned NaN-poisoned values is not examined further)
       (IF e.exc \in ArithExc THEN R(m, Ok, 1)
        ELSE IF e.exc = NoExc THEN R([m1 EXCEPT !.dead = TRUE], Ok, 1)
        ELSE R([m1 EXCEPT !.dead = TRUE], F("evaluate.exc", step, "ok or arithmetic error", e.exc), 1))
  ELSE
    LET f0 == ExcClass(TRUE, e, "evaluate.exc", step)
        d0 == D0(m1) d1 == D1(m1) n == d1 - d0 + 1
        ex == Expected(m1, m.phi)
        k  == Mismatch(e.ret, ex, d0, n, 0, 2 * d0, 2 * d1)
        f1 == IF f0 # Ok THEN Ok
              ELSE IF e.ret = <<>> THEN F("evaluate.empty", step, ex, e.ret)
              ELSE IF ~Monotone(e.ret) THEN F("evaluate.monotone", step, "non-decreasing time-stamps", e.ret)
              ELSE IF e.ret[1][1] # 2 * d0 THEN F("evaluate.start", step, <<2 * d0, ex>>, e.ret)
              ELSE IF k # 0 THEN F("evaluate.value", step, <<k, d0, ex>>, e.ret)
              ELSE Ok
        f2 == IF f0 = Ok /\ ~e.same THEN F("evaluate.argsMutated", step, "unchanged", "changed") ELSE Ok
        \* C07 (sign) on the implementation's own numbers against the Boolean dense-time semantics
        f3 == IF f0 = Ok /\ e.ret # <<>> /\ DenseBool(m.phi) /\ Monotone(e.ret) /\ SameStart(m1.fed, UsedVars(m1))
                    /\ ~SatUndef(m.phi, CellsOf(m1.fed, UsedVars(m1), d0, d1 + Settle(m.phi)), d1 + Settle(m.phi) - d0 + 1, m.cfg.S)
              THEN LET nn == d1 + Settle(m.phi) - d0 + 1
                       st == SatC(m.phi, CellsOf(m1.fed, UsedVars(m1), d0, d1 + Settle(m.phi)), nn, m.cfg.S)
                       badk == {kk \in 1..n : LET v == StepAt(e.ret, 2 * (d0 + kk - 1)) IN
                                              v # NoVal /\ v # Bad /\ ((v > 0 /\ ~st[kk]) \/ (v < 0 /\ st[kk]))} IN
                   IF badk = {} THEN Ok ELSE F("evaluate.sign", step, st, e.ret)
              ELSE Ok IN
    R(ModelEval(m1, e), f0 \o f1 \o f2 \o f3, 0)

\* online update(): C05.  Supported: no future operator in the installed AST, no bounded until (precedes)
OnlineCtOK(p) == ~HasOp(p, {"ev", "alw", "until", "evT", "alwT", "untilT", "next", "snext", "prev", "sprev", "rise", "fall", "precT"})
ConcatW(W, B, vs) == [v \in vs |-> W[v] \o (IF v \in DOMAIN B THEN B[v] ELSE <<>>)]
ApplyUpdate(m, e, step) ==
  IF ~OnlineCtOK(m.inst) THEN R(m, ExcClass(FALSE, e, "update.exc", step), 0)
  ELSE
    LET m1 == [m EXCEPT !.phase = "online", !.fed = ConcatW(m.fed, e.w, m.cfg.vars),
                        !.emitted = m.emitted \o e.ret, !.nupd = m.nupd + 1, !.last = e.ret,
                        !.rets = Append(m.rets, e.ret), !.lastw = e.w,
                        !.mu = IF m.nupd + 1 > m.mu THEN m.nupd + 1 ELSE m.mu]   \* mu: most updates in one segment
        f0 == ExcClass(TRUE, e, "update.exc", step)
        poison == e.exc \in ArithExc /\ HasData(m1) /\ AnyUndef(m1, m.phi)
        f1 == IF f0 = Ok /\ ~Monotone(m1.emitted) THEN F("update.monotone", step, "non-decreasing time-stamps", m1.emitted) ELSE Ok
        f2 == IF f0 = Ok /\ ~e.same THEN F("update.argsMutated", step, "unchanged", "changed") ELSE Ok IN
    \* an update() that raised on an undefined value (sqrt of a negative sample, division by 0): the state is unknown until the
    \* next reset(), which must bring the monitor back to its initial state
    IF poison THEN R([m EXCEPT !.dead = TRUE, !.poisoned = TRUE], Ok, 1) ELSE
    R(ModelStep(m1, e), f0 \o f1 \o f2, 0)

\* the value part of the online contract is evaluated when the whole signal is known (end of the case, or a reset)
OnlineValueFail(m, step) ==
  IF m.phase # "online" \/ m.emitted = <<>> \/ ~HasData(m) \/ m.dead THEN Ok
  ELSE IF AnyUndef(m, m.phi) THEN Ok
  ELSE
    LET d0 == D0(m) d1 == D1(m) n == d1 - d0 + 1
        h == IF m.inst = m.phi THEN 0 ELSE Hor(m.phi)
        ex == Expected(m, m.phi)
        lo2 == m.emitted[1][1]
        hi2 == m.emitted[Len(m.emitted)][1]
        k == Mismatch(m.emitted, ex, d0, n, h, lo2, hi2) IN
    IF k # 0 THEN F("update.value", step, <<k, d0, h, ex>>, m.emitted) ELSE Ok

\* C07 (sign) for an online monitor: wherever the concatenated returns are defined, a positive value means the
\* specification is satisfied there and a negative one that it is violated (Dense!SatC, not via SigC)
OnlineSignFail(m, step) ==
  IF m.phase # "online" \/ m.emitted = <<>> \/ ~HasData(m) \/ m.dead \/ m.inst # m.phi \/ ~DenseBool(m.phi) \/ ~Monotone(m.emitted) THEN Ok
  ELSE IF ~SameStart(m.fed, UsedVars(m)) THEN Ok
  ELSE
    LET d0 == D0(m) dS == D1(m) + Settle(m.phi) nn == dS - d0 + 1
        C == CellsOf(m.fed, UsedVars(m), d0, dS) IN
    IF SatUndef(m.phi, C, nn, m.cfg.S) THEN Ok
    ELSE
      LET st == SatC(m.phi, C, nn, m.cfg.S)
          lo2 == m.emitted[1][1]
          hi2 == m.emitted[Len(m.emitted)][1]
          badk == {kk \in 1..(D1(m) - d0 + 1) :
                     LET t2 == 2 * (d0 + kk - 1)
                         v == StepAt(m.emitted, t2) IN
                     lo2 <= t2 /\ t2 <= hi2 /\ v # NoVal /\ v # Bad /\ ((v > 0 /\ ~st[kk]) \/ (v < 0 /\ st[kk]))} IN
      IF badk = {} THEN Ok ELSE F("update.sign", step, st, m.emitted)

ApplyReset(m, e, step) ==
  LET f0 == ExcClass(TRUE, e, "reset.exc", step)
      fv == OnlineValueFail(m, step) \o OnlineSignFail(m, step) IN
  R(Install([m EXCEPT !.phase = "online", !.fed = [v \in m.cfg.vars |-> <<>>], !.emitted = <<>>, !.nupd = 0]), fv \o f0, 0)

\* C19: a *discrete-time* object evaluated inside a dense-time case; its result (checked by C01's own trace
\* specification) is only recorded here, as the samples <<2 * time-stamp, value>>, for the relation "sampled_eq"
ApplyDtEvaluate(m, e, step) ==
  R([m EXCEPT !.phase = "dt", !.emitted = e.ret, !.fed = e.w], ExcClass(TRUE, e, "dt_evaluate.exc", step), 0)

\* get_value(n) in dense time (C12): the list returned for a name denotes SigC of the formula bound to the name on
\* the input domain (offline; online: on the region it covers); for an input variable it denotes the supplied signal
ApplyGet(m, e, obj, step) ==
  LET f0 == ExcClass(TRUE, e, "get.exc", step)
      m1 == [m EXCEPT !.gets = Append(m.gets, [n |-> e.n, v |-> e.ret, k |-> Len(m.rets)])] IN
  IF f0 # Ok \/ ~HasData(m) \/ e.ret = <<>> THEN R(m1, f0, 0)
  ELSE
    LET d0 == D0(m) d1 == D1(m) n == d1 - d0 + 1
        isvar == e.n \in m.cfg.vars
        ex == IF isvar THEN CellsOf(m.fed, {e.n}, d0, d1)[e.n] ELSE Expected(m, Desugar(obj.names[e.n]))
        lo2 == IF m.phase = "offline" THEN 2 * d0 ELSE e.ret[1][1]
        hi2 == IF m.phase = "offline" THEN 2 * d1 ELSE e.ret[Len(e.ret)][1]
        k == Mismatch(e.ret, ex, d0, n, 0, lo2, hi2) IN
    \* an input variable: exactly the data supplied (the batch of the last update / the evaluated list)
    IF isvar /\ m.phase = "online" /\ e.n \in DOMAIN m.lastw
          /\ e.ret # [i \in 1..Len(m.lastw[e.n]) |-> <<2 * m.lastw[e.n][i][1], m.lastw[e.n][i][2]>>]
       THEN R(m1, F("get.data", step, m.lastw[e.n], e.ret), 0)
    ELSE IF ~Monotone(e.ret) THEN R(m1, F("get.monotone", step, "non-decreasing", e.ret), 0)
    ELSE IF k # 0 THEN R(m1, F("get.value", step, <<k, d0, ex>>, e.ret), 0)
    ELSE R(m1, Ok, 0)

Apply(c, e, step) ==
  LET m == ms[e.o] obj == c.objs[e.o] IN
  IF m.dead /\ m.poisoned /\ e.a = "reset" THEN
    (LET r == ApplyReset([m EXCEPT !.dead = FALSE], e, step) IN R([r.m EXCEPT !.dead = FALSE, !.poisoned = FALSE], r.f, r.u)) ELSE
  IF m.dead THEN R(m, Ok, 0) ELSE
  CASE e.a = "parse"    -> ApplyParse(m, e, obj, step)
    [] e.a = "pastify"  -> ApplyPastify(m, e, step)
    [] e.a = "evaluate" -> ApplyEvaluate(m, e, step)
    [] e.a = "update"   -> ApplyUpdate(m, e, step)
    [] e.a = "reset"    -> ApplyReset(m, e, step)
    [] e.a = "get"      -> ApplyGet(m, e, obj, step)
    [] e.a = "dt_evaluate" -> ApplyDtEvaluate(m, e, step)
    \* set_var_io_type() and parse() again on an object that was not fed online yet (C06): the predicates follow the new declarations
    [] e.a = "config" -> IF "io" \in DOMAIN e /\ m.phase \in {"parsed", "offline"}
                         THEN R([m EXCEPT !.cfg = [m.cfg EXCEPT !.M = [sem |-> m.cfg.M.sem, io |-> e.io]]], ExcClass(TRUE, e, "config.exc", step), 0)
                         ELSE R([m EXCEPT !.dead = TRUE], Ok, 0)

\* relations between objects at the end of a case
\* the instants at which two step functions can differ: their time-stamps and the instants just after them
Stamps(out) == {out[i][1] : i \in 1..Len(out)} \cup {out[i][1] + 1 : i \in 1..Len(out)}
Covered(out) == IF out = <<>> THEN {} ELSE {t \in Stamps(out) : t <= out[Len(out)][1]}
Within(out, t) == out # <<>> /\ out[1][1] <= t /\ t <= out[Len(out)][1]
RelFail(c, r) ==
  IF ms[r.x].dead \/ ms[r.y].dead THEN Ok ELSE
  CASE r.rel = "same_fn" ->        \* the two emitted lists denote the same step function where both are defined
         LET a == ms[r.x].emitted b == ms[r.y].emitted
             both == {t \in Covered(a) \cup Covered(b) : Within(a, t) /\ Within(b, t)} IN
         IF \A t2 \in both : StepAt(a, t2) = StepAt(b, t2) THEN Ok ELSE F("rel.same_fn", 0, a, b)
    [] r.rel = "get_fn" ->         \* C12: get_value(n) on x denotes the same function as the result of the stand-alone y
         LET gs == SelectSeq(ms[r.x].gets, LAMBDA g : g.n = r.n)
             a == IF gs = <<>> THEN <<>> ELSE gs[Len(gs)].v
             b == ms[r.y].emitted
             both == {t \in Covered(a) \cup Covered(b) : Within(a, t) /\ Within(b, t)} IN
         IF gs # <<>> /\ \A t2 \in both : StepAt(a, t2) = StepAt(b, t2) THEN Ok ELSE F("rel.get_fn", 0, b, a)
    [] r.rel = "get_seq" ->        \* C12 online: the list get_value(n) returns after the k-th update = the k-th list the stand-alone y returned
         LET gs == SelectSeq(ms[r.x].gets, LAMBDA g : g.n = r.n) IN
         IF \A i \in 1..Len(gs) : gs[i].k >= 1 /\ gs[i].k <= Len(ms[r.y].rets) /\ gs[i].v = ms[r.y].rets[gs[i].k] THEN Ok
         ELSE F("rel.get_seq", 0, ms[r.y].rets, gs)
    [] r.rel = "sampled_eq" ->     \* C19: dense result x sampled at the discrete instants = discrete result y, while k + h < N
         LET a == ms[r.x].emitted b == ms[r.y].emitted N == Len(b) IN
         IF \A k \in 1..N : (k + r.h <= N) => StepAt(a, b[k][1]) = b[k][2] THEN Ok
         ELSE F("rel.sampled_eq", 0, b, a)
    [] r.rel = "settled_ct" ->     \* C16 dense: y extends x; values at t with t + h < end of x agree
         LET a == ms[r.x].emitted b == ms[r.y].emitted
             d0 == D0(ms[r.x]) d1 == D1(ms[r.x]) IN
         IF \A t2 \in (2 * d0)..(2 * d1) : t2 + 2 * r.h < 2 * d1 => StepAt(a, t2) = StepAt(b, t2) THEN Ok
         ELSE F("rel.settled_ct", 0, a, b)

RECURSIVE RelFails(_, _)
RelFails(c, i) == IF i > Len(c.rels) THEN Ok ELSE RelFail(c, c.rels[i]) \o RelFails(c, i + 1)

RECURSIVE EndFails(_)
EndFails(i) == IF i > Len(ms) THEN Ok ELSE OnlineValueFail(ms[i], 0) \o OnlineSignFail(ms[i], 0) \o EndFails(i + 1)

Filt(c, fs) == SelectSeq(fs, LAMBDA f : f.clause \notin SeqToSet(c.skip))

\* known findings reproduced exactly by the failing observation
\* (F-05a, pending intervals of once/historically[a,b] lost between updates, and F-05b, constants re-emitted by every
\*  update, were repaired in the library: the online clauses have no excuse any more)
Explained(c, fl) ==
  IF fl = Ok THEN {} ELSE
  LET f == fl[1] IN
  \* F-04b: dense-time offline, signals whose first time-stamp is not 0 and a bounded temporal operator: the
  \* bounded operators build their result from time 0 (the suite pins this), so the result does not start at
  \* the begin of the input domain and binary operators downstream may be misaligned
  \* Exact where the operational model applies: the returned step function must be the one DenseOff!OffC produces.
  (IF f.clause \in {"evaluate.start", "evaluate.value"}
      /\ \E i \in 1..Len(ms) : ms[i].phase = "offline" /\ HasOp(ms[i].phi, Timed) /\ HasData(ms[i]) /\ D0(ms[i]) > 0
      /\ \A j \in 1..Len(ms) : (ms[j].phase = "offline" /\ ms[j].phi.op # "null" /\ OfflineCOK(ms[j].phi))
                                  => SameAsModel(ms[j])
   THEN {"F-04b"} ELSE {}) \cup
  \* F-05c: the online counterpart: once/historically[a,b] with a > 0 (also inside since[a,b] and pastified
  \* eventually/always) produce their initial -inf/+inf segment only if the first time-stamp is 0; for a signal
  \* that begins later the output begins at t0 + a, and an operator on top sees no value before (the suite pins this)
  \* Exact where the operational model applies: the returned step function must be the one DenseOn!UpdateC (which has the
  \* same `first time-stamp = 0` special case) produces - any other wrong value in this class is not excused.
  (IF f.clause = "update.value"
      /\ \E i \in 1..Len(ms) : ms[i].phase = "online" /\ ms[i].inst.op # "null" /\ HasData(ms[i]) /\ D0(ms[i]) > 0
            /\ \E q \in SubF(ms[i].inst) : q.op \in Timed /\ q.a > 0
      /\ \A j \in 1..Len(ms) : (ms[j].phase = "online" /\ ms[j].inst.op # "null" /\ OnlineCOK(ms[j].inst))
                                  => SameAsModel(ms[j])
   THEN {"F-05c"} ELSE {})

Verdict(c, fl) ==
  [tid |-> c.tid, ok |-> fl = Ok,
   clause |-> IF fl = Ok THEN "" ELSE fl[1].clause,
   step |-> IF fl = Ok THEN 0 ELSE fl[1].step,
   exp |-> IF fl = Ok THEN "" ELSE ToString(fl[1].exp),
   got |-> IF fl = Ok THEN "" ELSE ToString(fl[1].got),
   explained |-> Explained(c, fl),
   undef |-> info.undef, steps |-> info.steps,
   \* binding diagnostic: update() calls that returned exactly what DenseOn!UpdateC returns / first one that did not
   compared |-> LET RECURSIVE Sum(_) Sum(i) == IF i > Len(ms) THEN 0 ELSE ms[i].compared + Sum(i + 1) IN Sum(1),
   drift |-> \E i \in 1..Len(ms) : ms[i].drift # 0]

TInit == tid = 1 /\ l = 1 /\ ms = InitMs(CaseAt(1)) /\ fail = Ok /\ info = [undef |-> 0, steps |-> 0]

Step ==
  /\ tid <= NCases /\ l <= Len(Cases[tid].events)
  /\ LET c == Cases[tid] e == c.events[l] r == Apply(c, e, l) fs == Filt(c, r.f) IN
       /\ ms' = [ms EXCEPT ![e.o] = r.m]
       /\ fail' = IF fail = Ok /\ fs # Ok THEN <<fs[1]>> ELSE fail
       /\ info' = [undef |-> info.undef + r.u, steps |-> info.steps + 1]
  /\ l' = l + 1 /\ tid' = tid

Finish ==
  /\ tid <= NCases /\ l = Len(Cases[tid].events) + 1
  /\ LET c == Cases[tid]
         ef == Filt(c, EndFails(1))
         rf == Filt(c, RelFails(c, 1))
         fl == IF fail # Ok THEN fail ELSE IF ef # Ok THEN <<ef[1]>> ELSE IF rf # Ok THEN <<rf[1]>> ELSE Ok IN
     PrintT("VERDICT " \o ToJson(Verdict(c, fl)))
  /\ tid' = tid + 1 /\ l' = 1 /\ ms' = InitMs(CaseAt(tid + 1)) /\ fail' = Ok /\ info' = [undef |-> 0, steps |-> 0]

TNext == Step \/ Finish
TSpec == TInit /\ [][TNext]_tvars
=============================================================================
