CONSTANTS
 K = 1
 Configs = {}
 Formulas = {}
 Vals = {}
 Gaps = {}
 MaxLen = 0
 Dev = {}
 Mode = "trace"
SPECIFICATION TSpec
