------------------------------ MODULE TraceDt ------------------------------
(***************************************************************************)
(* Trace validation for discrete-time objects: replays recorded executions *)
(* of the real library through the actions of Rtamt.tla.                   *)
(*                                                                         *)
(* The file named by the environment variable TRACE_FILE is a JSON array   *)
(* of cases.  A case has  objs  (configuration + intended AST + read-back  *)
(* ASTs of K objects),  events  (one per public call, in the global order  *)
(* in which the harness made them, each with the object index o, the       *)
(* arguments and everything observed at the call's return) and  rels       *)
(* (relations between objects to be evaluated at the end of the case).     *)
(* Every step applies the machine action to the object's record and        *)
(* compares the observation with what the specification allows; the first  *)
(* failing clause of a case is remembered, the case is always replayed to  *)
(* its end, and one line  VERDICT {json}  is printed per case.  The        *)
(* harness never judges.                                                   *)
(***************************************************************************)
EXTENDS Rtamt, Explain, Json, IOUtils, TLCExt

Cases == JsonDeserialize(IOEnv.TRACE_FILE)
NCases == Len(Cases)

Bad == 1999999998          \* the harness' code for "returned something that is not a representable number"
NoExc == ""

VARIABLES tid,   \* case cursor
          l,     \* event cursor inside the case
          ob,    \* per object: what was observed (returns since last reset, last evaluate result)
          fail,  \* first failing clause of the case: <<>> or <<record>>
          info   \* counters of the case: [undef, steps]
tvars == <<tid, l, ms, ob, fail, info>>

\* the formula an object monitors: given directly in samples (phi) or as written (written + units, property C08)
IsWritten(obj) == "written" \in DOMAIN obj
PhiOf(obj) == Desugar(IF IsWritten(obj) THEN NormAst(obj.written, obj.units) ELSE obj.phi)
StatusOf(obj) == IF IsWritten(obj) THEN NormStatus(obj.written, obj.units) ELSE "ok"
SeqToSet(s) == {s[i] : i \in 1..Len(s)}
CfgOf(o) == [S |-> o.S, M |-> o.mode, vars |-> SeqToSet(o.vars), period |-> o.period, tol |-> o.tol]
InitMs(c) == [i \in 1..Len(c.objs) |-> NewObj(CfgOf(c.objs[i]))]
InitOb(c) == [i \in 1..Len(c.objs) |-> [on |-> <<>>, off |-> <<>>, offt |-> <<>>, dead |-> FALSE, gets |-> <<>>,
                                        poisoned |-> FALSE,                   \* an update() met an undefined value: unknown state until reset()
                                        status |-> StatusOf(c.objs[i]),       \* of the bounds under the configuration in force
                                        compared |-> 0, drift |-> 0]]     \* binding of the explainer model (Explain.tla)
\* Python raises on the operations the README leaves undefined (division by zero, sqrt/log domain,
\* overflow); when the model meets Undef in some sub-formula such an exception is "undefined", not a
\* failure, and the object is not examined any further (its internal state is unknown)
ArithExc == {"other:ZeroDivisionError", "other:ValueError", "other:OverflowError"}
AnyUndefOff(m, W, N) == \E q \in SubF(m.phi) : HasUndef(Sig(q, W, N, m.cfg.S, m.cfg.M))
AnyUndefOn(m, s) == \E q \in SubF(m.inst) : Out(q, CurOn(m), s, m.cfg.S, m.cfg.M) = Undef
NoCase == [objs |-> <<>>, events |-> <<>>, rels |-> <<>>, tid |-> 0]
CaseAt(i) == IF i <= NCases THEN Cases[i] ELSE NoCase


F(clause, step, exp, got) == <<[clause |-> clause, step |-> step, exp |-> exp, got |-> got, alt |-> "", pof |-> FALSE]>>
\* failure of a pastified object's update: alt = what the pastification scheme as designed returns here
FP(clause, step, exp, got, alt, pof) ==
  <<[clause |-> clause, step |-> step, exp |-> exp, got |-> got, alt |-> alt, pof |-> pof]>>
Ok == <<>>

\* C07 applies to iff/xor-free Boolean formulas under the standard semantics whose predicates are defined
SignApplies(p) == p.op # "null" /\ IsBoolFormula(p) /\ ~HasOp(p, {"iff", "xor"})
\* explain(): "violated" is negative robustness whatever stands in verdict position (-(p and q), x - 3); an alternative trace
\* counts as satisfying only when its robustness is strictly positive (SatisfiedAt0)
\* (with iff / xor, whose robustness is never positive, "not violated" is robustness >= 0: Explain!SatisfiedAt0)
ExplSignApplies(p) == p.op # "null"
Dist(a, b) == IF a >= b THEN a - b ELSE b - a

\* result of applying one event: [m |-> new object record, o |-> new observation record,
\*                                f |-> failure (<<>> or <<rec>>), u |-> number of Undef skips]
R(m, o, f, u) == [m |-> m, o |-> o, f |-> f, u |-> u]

ExcClass(expectedOk, e, clause, step) ==
  IF expectedOk THEN (IF e.exc = NoExc THEN Ok ELSE F(clause, step, "ok", e.exc))
  ELSE (IF e.exc = "RTAMT" THEN Ok ELSE F(clause, step, "RTAMT", IF e.exc = NoExc THEN "ok" ELSE e.exc))

ApplyParse(m, o, e, obj, step) ==
  IF StatusOf(obj) = "overflow" THEN R(m, [o EXCEPT !.dead = TRUE], Ok, 1) ELSE
  LET f1 == ExcClass(TRUE, e, "parse.exc", step)
      phi0 == PhiOf(obj)
      impl == IF IsWritten(obj) /\ obj.implAst.op # "none" THEN NormAst(obj.implAst, obj.units) ELSE obj.implAst
      \* the AST the parser built must *mean* the specification: a tree that differs from the expected one but denotes the same
      \* signal transformer on all short traces (constants folded, nodes shared or re-associated) is no defect
      f2 == IF f1 = Ok /\ obj.implKnown /\ impl # phi0 /\ ~SemEq(Desugar(impl), phi0, m.cfg.S, m.cfg.M)
            THEN F("parse.ast", step, phi0, impl) ELSE Ok IN
  \* (after a parse() that failed although it must succeed the object is not examined any further: the failure is recorded)
  IF f1 # Ok THEN R(m, [o EXCEPT !.dead = TRUE], f1, 0) ELSE
  R(ParseF(m, phi0), o, f1 \o f2, 0)

ApplyPastify(m, o, e, obj, step) ==
  \* C08: a bound that is not a whole number of sampling periods may already be rejected by pastify() (which rewrites the
  \* bounds); if pastify() accepts, the first evaluation must reject (clause units.nonmultiple in Apply)
  \* (a refused pastify() leaves the object as it was - parsed: the sampling period may be corrected and pastify() called again)
  IF o.status = "nonint" /\ e.exc = "RTAMT" THEN R(m, o, Ok, 0) ELSE
  IF CanPastify(m) THEN R(PastifyF(m, IF "ltl" \in DOMAIN obj THEN {"ltlDelay"} ELSE {}), o, ExcClass(TRUE, e, "pastify.exc", step), 0)
  \* pastify() again on a future-free installed formula: harmless; after updates only reset() is specified (Rtamt!RepastifyF)
  ELSE IF CanRepastify(m) THEN R(RepastifyF(m), o, ExcClass(TRUE, e, "pastify.exc", step), 0)
  ELSE R(m, o, ExcClass(FALSE, e, "pastify.exc", step), 0)

\* set_sampling_period() / spec.unit = ... on a parsed object.  The bounds are resolved when they are needed - at every
\* evaluate() - so an offline object may be re-configured between evaluations, and the next evaluate() means the bounds as
\* written under the configuration then in force (a bound that is no longer a whole number of periods is rejected then).
\* Re-configuring an online monitor whose operators are built is outside the specification (the object is not examined further).
ApplyConfig(m, o, e, obj, step) ==
  \* a configuration call that must be refused (a tolerance outside [0, 1]) raises and leaves the configuration as it was
  IF "reject" \in DOMAIN e
  THEN R(m, o, IF e.exc # NoExc /\ e.exc # "timeout" THEN Ok ELSE F("config.rejected", step, "an exception", e.exc), 0) ELSE
  \* a new tolerance with the same period (C13): the bounds mean what they meant, the counter of the next data set uses it
  \* (also on an online monitor, and with the same period re-stated in another unit: the operators keep their sample counts)
  \* set_var_io_type() and parse() again on an object that was not fed online yet (C06): the predicates follow the new declarations
  \* (both are the machine's action Reconfigure)
  LET cfg1 == IF "tol" \in DOMAIN e /\ e.period = m.cfg.period THEN [m.cfg EXCEPT !.tol = e.tol] ELSE m.cfg
      cfg2 == IF "io" \in DOMAIN e THEN [cfg1 EXCEPT !.M = [sem |-> cfg1.M.sem, io |-> e.io]] ELSE cfg1 IN
  IF ("io" \in DOMAIN e /\ m.phase \in {"parsed", "offline"})
     \/ ("io" \notin DOMAIN e /\ "tol" \in DOMAIN e /\ m.phase \in {"parsed", "offline", "online", "pastified"} /\ e.period = m.cfg.period)
  THEN R(ReconfigureF(m, cfg2), o, ExcClass(TRUE, e, "config.exc", step), 0) ELSE      \* (online: Rtamt!RetoleranceF is the same function)
  IF ~IsWritten(obj) \/ m.phase \notin {"parsed", "offline"} THEN R(m, [o EXCEPT !.dead = TRUE], Ok, 0)
  ELSE LET st == NormStatus(obj.written, e.units) IN
       IF st = "overflow" THEN R(m, [o EXCEPT !.dead = TRUE], Ok, 1)
       ELSE LET phi2 == Desugar(NormAst(obj.written, e.units)) IN
            R([m EXCEPT !.phi = phi2, !.inst = phi2], [o EXCEPT !.status = st], ExcClass(TRUE, e, "config.exc", step), 0)

\* expected value of the k-th update: operational model for a non-pastified object; for a pastified one
\* the property C03 itself (defined only after the horizon)
ExpUpdate(m2) ==
  LET k == Len(m2.outOn) IN
  IF m2.inst = m2.phi THEN <<TRUE, m2.outOn[k]>>
  ELSE LET h == Hor(m2.phi) IN
       IF k > h THEN <<TRUE, Sig(m2.phi, m2.hist, k, m2.cfg.S, m2.cfg.M)[k - h]>>
       ELSE <<FALSE, 0>>

ApplyUpdate(m, o, e, step) ==
  IF m.phase = "stale" THEN R(m, [o EXCEPT !.dead = TRUE], Ok, 0) ELSE       \* (unspecified: pastify() again without a reset())
  IF ~CanUpdate(m) THEN R(m, o, ExcClass(FALSE, e, "update.exc", step), 0)
  ELSE IF AnyUndefOn(m, Full(m, e.s)) THEN
       \* some sub-formula has no defined value (inf - inf, 0 * inf, division by zero ...): Python either raises
       \* or propagates NaN in an order-dependent way; the README defines nothing here
       \* (the state of the operators is then unknown - until the next reset(), which must bring the monitor back to its initial
       \*  state whatever happened before, also a call that raised half-way)
       (IF e.exc \in ArithExc \cup {NoExc} THEN R(m, [o EXCEPT !.dead = TRUE, !.poisoned = TRUE], Ok, 1)
        ELSE R(m, [o EXCEPT !.dead = TRUE], F("update.exc", step, "ok or arithmetic error", e.exc), 1))
  ELSE
    LET m2 == UpdateF(m, e.s, e.t, {})
        ex == ExpUpdate(m2)
        o2 == [o EXCEPT !.on = Append(o.on, e.ret)]
        f0 == ExcClass(TRUE, e, "update.exc", step)
        und == ex[1] /\ ex[2] = Undef
        f1 == IF f0 # Ok \/ ~ex[1] \/ und THEN Ok
              ELSE IF e.ret = ex[2] THEN Ok
              ELSE IF m2.inst = m2.phi THEN F("update.ret", step, ex[2], e.ret)
              ELSE FP("update.ret", step, ex[2], e.ret, m2.outOn[Len(m2.outOn)], PastOverFuture(m2.phi))
        f2 == IF f0 = Ok /\ e.viol # m2.viol THEN F("update.viol", step, m2.viol, e.viol) ELSE Ok
        f3 == IF f0 = Ok /\ ~e.same THEN F("update.argsMutated", step, "unchanged", "changed") ELSE Ok
        \* C07 (sign) for future-free, non-pastified monitors: the value at step k speaks about sample k
        f4 == IF f0 = Ok /\ m2.inst = m2.phi /\ ~HasFuture(m2.phi) /\ SignApplies(m2.phi) /\ e.ret # Bad
                    /\ ~SatUndef(m2.phi, m2.hist, Len(m2.outOn), m2.cfg.S)
              THEN LET k == Len(m2.outOn)
                       st == Sat(m2.phi, m2.hist, k, m2.cfg.S)[k] IN
                   IF (e.ret > 0 /\ ~st) \/ (e.ret < 0 /\ st) THEN F("update.sign", step, st, e.ret) ELSE Ok
              ELSE Ok
        \* C07 (sign) for pastified monitors: after the horizon the value at step k speaks about sample k - h of the original
        \* formula on the trace seen so far (all its future windows end inside that trace); past-over-future is finding F-03c
        f5 == IF f0 = Ok /\ m2.inst # m2.phi /\ ~PastOverFuture(m2.phi) /\ SignApplies(m2.phi) /\ e.ret # Bad
                    /\ Len(m2.outOn) > Hor(m2.phi) /\ ~SatUndef(m2.phi, m2.hist, Len(m2.outOn), m2.cfg.S)
              THEN LET k == Len(m2.outOn)
                       st == Sat(m2.phi, m2.hist, k, m2.cfg.S)[k - Hor(m2.phi)] IN
                   IF (e.ret > 0 /\ ~st) \/ (e.ret < 0 /\ st) THEN F("update.sign", step, st, e.ret) ELSE Ok
              ELSE Ok IN
    R(m2, o2, f0 \o f1 \o f2 \o f3 \o f4 \o f5, IF und THEN 1 ELSE 0)

ApplyReset(m, o, e, step) ==
  IF ~CanReset(m) THEN R(m, o, ExcClass(FALSE, e, "reset.exc", step), 0)
  ELSE
    LET m2 == ResetF(m, {})
        f0 == ExcClass(TRUE, e, "reset.exc", step)
        f1 == IF f0 = Ok /\ e.viol # 0 THEN F("reset.viol", step, 0, e.viol) ELSE Ok IN
    R(m2, [o EXCEPT !.on = <<>>], f0 \o f1, 0)

ApplyEvaluate(m, o, e, step) ==
  IF AnyUndefOff(m, e.w, Len(e.ts)) THEN
       \* (an evaluate() that raised leaves the object as it was: evaluate() is a function of its arguments - the next
       \*  evaluate() is judged like any other; seed C19-g.  One that returned NaN-poisoned values is not examined further.)
       (IF e.exc \in ArithExc THEN R(m, o, Ok, 1)
        ELSE IF e.exc = NoExc THEN R(m, [o EXCEPT !.dead = TRUE], Ok, 1)
        ELSE R(m, [o EXCEPT !.dead = TRUE], F("evaluate.exc", step, "ok or arithmetic error", e.exc), 1))
  ELSE
  LET m2 == EvaluateF(m, e.w, e.ts)
      f0 == ExcClass(TRUE, e, "evaluate.exc", step)
      N  == Len(e.ts)
      o2 == [o EXCEPT !.off = e.ret, !.offt = e.rett]
      f1 == IF f0 # Ok THEN Ok
            ELSE IF Len(e.ret) # N THEN F("evaluate.len", step, N, Len(e.ret))
            ELSE IF e.rett # e.ts THEN F("evaluate.stamps", step, e.ts, e.rett)
            ELSE IF \E k \in 1..N : m2.offOut[k] # Undef /\ e.ret[k] # m2.offOut[k]
                 THEN LET k == CHOOSE k \in 1..N : m2.offOut[k] # Undef /\ e.ret[k] # m2.offOut[k] IN
                      F("evaluate.ret", step, <<k, m2.offOut>>, e.ret)
            ELSE Ok
      f2 == IF f0 = Ok /\ e.viol # m2.viol THEN F("evaluate.viol", step, m2.viol, e.viol) ELSE Ok
      f3 == IF f0 = Ok /\ ~e.same THEN F("evaluate.argsMutated", step, "unchanged", "changed") ELSE Ok
      u  == Cardinality({k \in 1..N : m2.offOut[k] = Undef})
      \* C07 (sign), directly on the implementation's numbers and the Boolean semantics (not via Sig)
      f4 == IF f0 = Ok /\ SignApplies(m2.phi) /\ Len(e.ret) = N /\ ~SatUndef(m2.phi, e.w, N, m2.cfg.S)
            THEN LET st == Sat(m2.phi, e.w, N, m2.cfg.S) IN
                 IF \E k \in 1..N : e.ret[k] # Bad /\ ((e.ret[k] > 0 /\ ~st[k]) \/ (e.ret[k] < 0 /\ st[k]))
                 THEN F("evaluate.sign", step, st, e.ret) ELSE Ok
            ELSE Ok IN
  R(m2, o2, f0 \o f1 \o f2 \o f3 \o f4, u)

\* get_value(n): C12.  obj.names maps every assertion / sub-specification name to its (inlined) formula.
\*   input variable        -> the data supplied (offline: the list, online: the current sample)
\*   offline               -> Sig(formula of n) on the evaluated data
\*   online                -> its current value; after pastify() the value of the stand-alone pastified formula
\*                            of n, i.e. the robustness delayed by n's own horizon (defined once k > h_n)
IsVarName(m, n) == n \in m.cfg.vars
ApplyGet(m, o, e, obj, step) ==
  LET f0 == ExcClass(TRUE, e, "get.exc", step)
      o2 == [o EXCEPT !.gets = Append(o.gets, [n |-> e.n, v |-> e.ret, k |-> Len(m.outOn)])] IN
  IF f0 # Ok THEN R(m, o2, f0, 0)
  ELSE IF m.phase = "offline" THEN
    LET N == Len(m.ts)
        ex == IF IsVarName(m, e.n) THEN m.hist[e.n] ELSE Sig(obj.names[e.n], m.hist, N, m.cfg.S, m.cfg.M)
        f1 == IF e.scalar THEN F("get.shape", step, "list", "scalar")
              ELSE IF Len(e.ret) # N THEN F("get.len", step, N, Len(e.ret))
              ELSE IF \E k \in 1..N : ex[k] # Undef /\ e.ret[k] # ex[k] THEN F("get.value", step, ex, e.ret)
              ELSE Ok IN
    R(m, o2, f1, 0)
  ELSE IF m.phase = "online" /\ Len(m.outOn) > 0 THEN
    LET k == Len(m.outOn)
        pn == IF IsVarName(m, e.n) THEN Null ELSE obj.names[e.n]
        h == IF IsVarName(m, e.n) \/ m.inst = m.phi THEN 0 ELSE Hor(pn)
        ex == IF IsVarName(m, e.n) THEN m.hist[e.n][k]
              ELSE IF k > h THEN Sig(pn, m.hist, k, m.cfg.S, m.cfg.M)[k - h] ELSE Undef
        f1 == IF ~e.scalar THEN F("get.shape", step, "scalar", "list")
              ELSE IF ex # Undef /\ e.ret[1] # ex THEN F("get.value", step, ex, e.ret[1])
              ELSE Ok IN
    R(m, o2, f1, 0)
  ELSE R(m, o2, Ok, 0)

\* explain(): C20.  e.rep maps every variable of the formula to the list of reported closed intervals <<lo, hi>>
\* (0-based sample indices).  The report must be a sufficient cause of the violation at time 0: every trace that
\* agrees with the evaluated one on all reported (variable, sample) positions violates the formula at time 0 too.
\* Re-assigned samples range over representatives of the regions cut out by the constants of the formula.
Reported(e, v) == UNION {{k + 1 : k \in iv[1]..iv[2]} : iv \in SeqToSet(e.rep[v])}
ConstsOf(p) == {q.c : q \in {q \in SubF(p) : q.op = "const"}}
\* representatives of the regions cut out by the constants (below / at / above each constant, at scale S: +-1
\* scaled unit is the nearest representable neighbour), mirrored when the formula negates terms
RegionVals(p, W, v, N) ==
  LET cs0 == ConstsOf(p)
      cs == IF HasOp(p, {"neg", "abs", "sub", "add", "mul"}) THEN cs0 \cup {-c : c \in cs0} \cup {0} ELSE cs0 IN
   {c - 1 : c \in cs} \cup cs \cup {c + 1 : c \in cs} \cup {W[v][k] : k \in 1..N}
RECURSIVE NodeCount(_)
NodeCount(p) == IF p.op \in {"var", "const"} THEN 1 ELSE IF p.op \in Un1 THEN 1 + NodeCount(p.l)
                ELSE 1 + NodeCount(p.l) + NodeCount(p.r)
RECURSIVE NonConstNodes(_)
NonConstNodes(p) == IF p.op = "const" THEN 0 ELSE IF p.op = "var" THEN 1 ELSE IF p.op \in Un1 THEN 1 + NonConstNodes(p.l)
                    ELSE 1 + NonConstNodes(p.l) + NonConstNodes(p.r)
HasDupName(p) == NonConstNodes(p) > Cardinality({q \in SubF(p) : q.op # "const"})
\* binding diagnostic: explain() reported exactly the positions the operational model Explain!Explanation computes
ExplainModel(m, o, e) ==
  LET N == Len(m.ts) vs == m.cfg.vars
      E == Explanation(m.phi, m.hist, N, m.cfg.S, m.cfg.M, {}) IN
  IF ~ExplainOK(m.phi) \/ e.exc # NoExc THEN o
  ELSE IF \A v \in vs : Reported(e, v) = ReportedFor(E, v) THEN [o EXCEPT !.compared = o.compared + 1]
  ELSE [o EXCEPT !.drift = 1]
ApplyExplain(m, o0, e, step) ==
  LET f0 == ExcClass(TRUE, e, "explain.exc", step)
      N == Len(m.ts) vs == m.cfg.vars W == m.hist
      rho1 == m.offOut[1]
      o == IF f0 = Ok /\ m.phase = "offline" /\ ExplSignApplies(m.phi) /\ rho1 # Undef
           THEN ExplainModel(m, o0, e) ELSE o0 IN
  \* "violated at time 0" is rtamt's own notion: negative robustness (explain() does nothing otherwise); robustness 0
  \* is neither (skipped)
  IF f0 # Ok \/ m.phase # "offline" \/ ~ExplSignApplies(m.phi) \/ rho1 = Undef \/ rho1 = 0 \/ HasUndef(m.offOut)
  THEN R(m, o, f0, 0)
  ELSE IF rho1 > 0 THEN
       (IF \A v \in vs : Reported(e, v) = {} THEN R(m, o, Ok, 0)
        ELSE R(m, o, F("explain.reported_for_satisfied", step, "nothing reported", e.rep), 0))
  ELSE
    LET Alt == {X \in [vs -> [1..N -> UNION {RegionVals(m.phi, W, v, N) : v \in vs}]] :
                  \A v \in vs : \A k \in 1..N :
                     (k \in Reported(e, v) => X[v][k] = W[v][k]) /\ X[v][k] \in RegionVals(m.phi, W, v, N)}
        badX == {X \in Alt : SatisfiedAt0(m.phi, X, N, m.cfg.S, m.cfg.M)} IN
    IF badX = {} THEN R(m, o, Ok, 0)
    ELSE R(m, o, F("explain.not_sufficient", step, <<e.rep, W>>, CHOOSE X \in badX : TRUE), 0)

Apply(c, e, step) ==
  LET m == ms[e.o] o == ob[e.o] obj == c.objs[e.o] IN
  IF o.dead /\ o.poisoned /\ e.a = "reset" THEN
    (LET r == ApplyReset(m, o, e, step) IN R(r.m, [r.o EXCEPT !.dead = FALSE, !.poisoned = FALSE], r.f, r.u)) ELSE
  IF o.dead THEN R(m, o, Ok, 0) ELSE
  \* C08: a bound that is not a whole number of sampling periods is rejected (RTAMTException) at the first evaluation
  IF e.a \in {"update", "evaluate"} /\ o.status = "nonint"
  THEN R(m, [o EXCEPT !.dead = TRUE], ExcClass(FALSE, e, "units.nonmultiple", step), 0) ELSE
  CASE e.a = "parse"    -> ApplyParse(m, o, e, obj, step)
    [] e.a = "pastify"  -> ApplyPastify(m, o, e, obj, step)
    [] e.a = "update"   -> ApplyUpdate(m, o, e, step)
    [] e.a = "reset"    -> ApplyReset(m, o, e, step)
    [] e.a = "evaluate" -> ApplyEvaluate(m, o, e, step)
    [] e.a = "get"      -> ApplyGet(m, o, e, obj, step)
    [] e.a = "explain"  -> ApplyExplain(m, o, e, step)
    [] e.a = "config"   -> ApplyConfig(m, o, e, obj, step)
    \* another text (and sub-specifications) given to a parsed object, which is parsed again: the machine's action Reparse
    [] e.a = "reparse"  -> IF CanReparse(m) THEN R(ReparseF(m, Desugar(e.phi)), o, ExcClass(TRUE, e, "reparse.exc", step), 0)
                           ELSE R(m, [o EXCEPT !.dead = TRUE], Ok, 0)

\* relations between the objects of a case, evaluated when all its events are consumed
RelFail(c, r) ==
  IF \E i \in (IF r.rel = "ball" THEN {r.x} ELSE {r.x, r.y}) : ob[i].dead THEN Ok ELSE
  CASE r.rel = "same_on" ->          \* observed update() returns of two objects are identical
         IF ob[r.x].on = ob[r.y].on THEN Ok ELSE F("rel.same_on", 0, ob[r.x].on, ob[r.y].on)
    [] r.rel = "same_off" ->         \* observed evaluate() results are identical
         IF ob[r.x].off = ob[r.y].off THEN Ok ELSE F("rel.same_off", 0, ob[r.x].off, ob[r.y].off)
    [] r.rel = "settled" ->          \* C16: y's trace extends x's; values with t + h inside x's trace agree
         LET a == ob[r.x].off b == ob[r.y].off n == Len(a) IN
         IF \A t \in 1..n : t + r.h <= n => (t <= Len(b) /\ a[t] = b[t]) THEN Ok
         ELSE F("rel.settled", 0, a, b)
    [] r.rel = "ball" ->             \* C07 (magnitude): a trace X closer than |reported value| has the same verdict at r.t
         LET m == ms[r.x] N == Len(m.ts) v == ob[r.x].off[r.t] IN
         IF ~SignApplies(m.phi) \/ ~VarConstPreds(m.phi) \/ v = Bad \/ ~IsFin(v) \/ v = 0 THEN Ok
         ELSE IF \E u \in m.cfg.vars : \E k \in 1..N : Dist(r.X[u][k], m.hist[u][k]) >= Abs(v) THEN Ok   \* outside the ball
         ELSE IF SatUndef(m.phi, r.X, N, m.cfg.S) THEN Ok
         ELSE IF Sat(m.phi, r.X, N, m.cfg.S)[r.t] = Sat(m.phi, m.hist, N, m.cfg.S)[r.t] THEN Ok
         ELSE F("rel.ball", r.t, <<v, m.hist>>, r.X)
    [] r.rel = "get_off" ->          \* C12 offline: get_value(n) on x = the result of the stand-alone object y
         LET gs == SelectSeq(ob[r.x].gets, LAMBDA g : g.n = r.n) IN
         IF gs = <<>> THEN F("rel.get_off", 0, "a get_value observation", "none")
         ELSE IF gs[Len(gs)].v = ob[r.y].off THEN Ok ELSE F("rel.get_off", 0, ob[r.y].off, gs[Len(gs)].v)
    [] r.rel = "get_on" ->           \* C12 online: the get_value(n) after the k-th update = k-th return of the stand-alone y
         LET gs == SelectSeq(ob[r.x].gets, LAMBDA g : g.n = r.n /\ g.k >= r.k) IN
         IF \A i \in 1..Len(gs) : gs[i].k <= Len(ob[r.y].on) /\ gs[i].v = <<ob[r.y].on[gs[i].k]>> THEN Ok
         ELSE F("rel.get_on", 0, ob[r.y].on, gs)
    [] r.rel = "same_on_from" ->     \* agree from index r.k on (1-based)
         LET a == ob[r.x].on b == ob[r.y].on IN
         IF Len(a) = Len(b) /\ \A t \in 1..Len(a) : t >= r.k => a[t] = b[t] THEN Ok
         ELSE F("rel.same_on_from", 0, a, b)

RECURSIVE RelFails(_, _)
RelFails(c, i) == IF i > Len(c.rels) THEN Ok ELSE RelFail(c, c.rels[i]) \o RelFails(c, i + 1)

\* which known findings (by id) reproduce exactly the failing observation
Explained(c, fl) ==
  IF fl = Ok THEN {} ELSE
  LET f == fl[1] IN
  \* F-03c: a past operator over a future operand; the value is exactly the one the pastification
  \* scheme as designed (Past!Pastify) produces
  (IF f.clause = "update.ret" /\ f.pof /\ f.got = f.alt THEN {"F-03c"} ELSE {})
  \* (F-20a, explanations overwritten per printed name, and F-20d, rise / fall without the previous sample, were
  \*  repaired in the library: explain.not_sufficient has no excuse any more)

Verdict(c, fl) ==
  [tid |-> c.tid, ok |-> fl = Ok,
   clause |-> IF fl = Ok THEN "" ELSE fl[1].clause,
   step |-> IF fl = Ok THEN 0 ELSE fl[1].step,
   exp |-> IF fl = Ok THEN "" ELSE ToString(fl[1].exp),
   got |-> IF fl = Ok THEN "" ELSE ToString(fl[1].got),
   explained |-> Explained(c, fl),
   undef |-> info.undef, steps |-> info.steps,
   compared |-> LET RECURSIVE SumC(_) SumC(i) == IF i > Len(ob) THEN 0 ELSE ob[i].compared + SumC(i + 1) IN SumC(1),
   drift |-> \E i \in 1..Len(ob) : ob[i].drift # 0]

\* clauses a case asks not to be examined (they belong to another property's check)
Filt(c, fs) == SelectSeq(fs, LAMBDA f : f.clause \notin SeqToSet(c.skip))

TInit ==
  /\ tid = 1 /\ l = 1
  /\ ms = InitMs(CaseAt(1)) /\ ob = InitOb(CaseAt(1))
  /\ fail = Ok /\ info = [undef |-> 0, steps |-> 0]

Step ==
  /\ tid <= NCases
  /\ l <= Len(Cases[tid].events)
  /\ LET c == Cases[tid] e == c.events[l] r == Apply(c, e, l) IN
       /\ ms' = [ms EXCEPT ![e.o] = r.m]
       /\ ob' = [ob EXCEPT ![e.o] = r.o]
       /\ fail' = LET fs == Filt(c, r.f) IN IF fail = Ok /\ fs # Ok THEN <<fs[1]>> ELSE fail
       /\ info' = [undef |-> info.undef + r.u, steps |-> info.steps + 1]
  /\ l' = l + 1 /\ tid' = tid

Finish ==
  /\ tid <= NCases
  /\ l = Len(Cases[tid].events) + 1
  /\ LET c == Cases[tid]
         rf == Filt(c, RelFails(c, 1))
         fl == IF fail # Ok THEN fail ELSE IF rf # Ok THEN <<rf[1]>> ELSE Ok IN
     PrintT("VERDICT " \o ToJson(Verdict(c, fl)))
  /\ tid' = tid + 1 /\ l' = 1
  /\ ms' = InitMs(CaseAt(tid + 1)) /\ ob' = InitOb(CaseAt(tid + 1))
  /\ fail' = Ok /\ info' = [undef |-> 0, steps |-> 0]

TNext == Step \/ Finish
TSpec == TInit /\ [][TNext]_tvars

AllConsumed == TLCGet("stats").diameter > 0   \* acceptance is by verdict lines; see harness
=============================================================================
