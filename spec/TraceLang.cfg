SPECIFICATION TSpec
