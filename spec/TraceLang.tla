----------------------------- MODULE TraceLang -----------------------------
(***************************************************************************)
(* Validation of recorded parse() outcomes against the language model      *)
(* (properties C14, C15).  A case:                                         *)
(*   tokens   the text as tokens (Lang.tla classes and values)             *)
(*   consts   names declared as constants through the API                  *)
(*   outcome  what parse() did: "ok" | "RTAMT" | "other:<class>" | "timeout" *)
(*   evalOut  outcome of the first evaluate() after a successful parse     *)
(*   implAst  read-back of the AST of the last assertion (when parsed)     *)
(*   phi      (C15 only) the AST the spelling was generated from           *)
(*   refRet / ret  (C15 only) result of the canonical spelling / of this   *)
(*            spelling on the same data                                    *)
(***************************************************************************)
EXTENDS Lang, Json, IOUtils, TLCExt

Cases == JsonDeserialize(IOEnv.TRACE_FILE)
NCases == Len(Cases)
VARIABLE tid
SeqToSet(s) == {s[i] : i \in 1..Len(s)}

ArithExc == {"other:ZeroDivisionError", "other:ValueError", "other:OverflowError"}

\* C14
FailC14(c) ==
  LET der == Derivable(c.tokens)
      st == der /\ StaticOK(c.tokens, SeqToSet(c.consts)) IN
  IF c.outcome \notin {"ok", "RTAMT"} THEN <<"parse.outcome", "ok or RTAMT", c.outcome>>
  ELSE IF c.outcome = "ok" /\ ~der THEN <<"parse.accepts_underivable", "RTAMT", "ok">>
  ELSE IF c.outcome = "ok" /\ ~st THEN <<"parse.accepts_bad_interval", "RTAMT", "ok">>
  ELSE IF c.outcome = "ok" /\ c.evalOut \notin ({"ok", "RTAMT", "skipped"} \cup ArithExc)
       THEN <<"parse.implicit_declaration", "ok or RTAMT at first evaluation", c.evalOut>>
  \* the same object asked again, text unchanged: a text outside the language stays rejected, and cleanly (seed C14-g)
  ELSE IF c.outcome = "RTAMT" /\ ~st /\ c.outcome2 = "ok" THEN <<"parse.accepts_at_second_call", "RTAMT", "ok">>
  ELSE IF c.outcome = "RTAMT" /\ c.outcome2 \notin {"", "ok", "RTAMT"} THEN <<"parse.outcome_second_call", "ok or RTAMT", c.outcome2>>
  ELSE <<>>

\* C15: the spelling denotes the AST phi
FailC15(c) ==
  LET mp == ParseAssertion(c.tokens)
      want == Desugar(DesugarU(c.phi)) IN
  IF ~Derivable(c.tokens) THEN <<"model.derivable", "derivable by Lang!Derivable", "not derivable">>   \* recogniser vs parser model
  ELSE IF ~mp.ok THEN <<"model.parse", "parsable by Lang!ParseAssertion", "no parse">>
  ELSE IF mp.ast # want THEN <<"model.ast", want, mp.ast>>          \* the spelling generator disagrees with the grammar model
  \* a spelling of the language - derivable, and grouped unambiguously by the precedence order - must be accepted
  ELSE IF c.outcome = "RTAMT" THEN <<"spelling.rejected", "ok", c.outcome>>
  ELSE IF c.outcome # "ok" THEN <<"parse.outcome", "ok", c.outcome>>
  \* (a tree that differs from the expected one but denotes the same signal transformer on all short traces is no defect)
  ELSE IF c.implKnown /\ c.implAst # want /\ ~SemEq(Desugar(c.implAst), want, 1, [sem |-> "standard", io |-> [v \in VarsOf(want) \cup VarsOf(c.implAst) |-> "output"]])
       THEN <<"spelling.ast", want, c.implAst>>
  ELSE IF c.evalOut \notin ({"ok"} \cup ArithExc) THEN <<"spelling.eval", "ok", c.evalOut>>
  ELSE IF c.evalOut = "ok" /\ c.ret # c.refRet THEN <<"spelling.result", c.refRet, c.ret>>
  ELSE <<>>

Verdict(c) ==
  LET f == IF c.mode = "C15" THEN FailC15(c) ELSE FailC14(c) IN
  [tid |-> c.tid, ok |-> f = <<>>,
   clause |-> IF f = <<>> THEN "" ELSE f[1],
   step |-> 0,
   exp |-> IF f = <<>> THEN "" ELSE ToString(f[2]),
   got |-> IF f = <<>> THEN "" ELSE ToString(f[3]),
   explained |-> {}, undef |-> 0, steps |-> 1,
   derivable |-> Derivable(c.tokens), rejected |-> c.outcome = "RTAMT"]

TInit == tid = 1
TNext == tid <= NCases /\ PrintT("VERDICT " \o ToJson(Verdict(Cases[tid]))) /\ tid' = tid + 1
TSpec == TInit /\ [][TNext]_tid
=============================================================================
