SPECIFICATION TSpec
