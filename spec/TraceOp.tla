------------------------------ MODULE TraceOp ------------------------------
(***************************************************************************)
(* Validation of executions of the real dense-time online operator classes *)
(* (OnceTimedOperation, HistoricallyTimedOperation) recorded call by call: *)
(*   case   = [kind, a, b, sig (the whole signal), events]                 *)
(*   event  = [batch, exc, ret, prev, rs]  (arguments, outcome, returned   *)
(*            batch, memory after the call)                                *)
(* Verdict (property C05 at operator level): no exception, concatenated    *)
(* returns monotone, each batch strictly increasing, and the step function *)
(* they denote = Dense!SigC of the whole signal where defined.             *)
(* Binding diagnostic (not a verdict): `exact` says whether every call     *)
(* returned exactly the list, and left exactly the memory, that the        *)
(* operational model DenseOn!TimedUpd computes - i.e. whether the model    *)
(* checked by TLC still is the algorithm in the code.                      *)
(***************************************************************************)
EXTENDS DenseOn, Json, IOUtils, TLCExt

Cases == JsonDeserialize(IOEnv.TRACE_FILE)
NCases == Len(Cases)
VARIABLE tid

RECURSIVE Cat(_, _)
Cat(evs, i) == IF i > Len(evs) THEN <<>> ELSE evs[i].ret \o Cat(evs, i + 1)

\* replay through the model; returns the index of the first call that differs (0: none)
RECURSIVE Drift(_, _, _, _)
Drift(c, i, st, dev) ==
  IF i > Len(c.events) THEN 0
  ELSE LET e == c.events[i]
           r == TimedUpd(c.kind, c.a, c.b, st, e.batch, dev) IN
       IF r.err # (e.exc # "") THEN i
       ELSE IF r.err THEN 0
       ELSE IF r.ret # e.ret \/ (e.mem /\ (r.st.prev # e.prev \/ r.st.rs # e.rs)) THEN i
       ELSE Drift(c, i + 1, r.st, dev)

Fail(c) ==
  LET em == Cat(c.events, 1)
      bad == {i \in 1..Len(c.events) : c.events[i].exc # ""}
      nonstrict == {i \in 1..Len(c.events) : ~StrictlyIncreasing(c.events[i].ret)} IN
  IF bad # {} THEN <<"op.exc", "no exception", c.events[CHOOSE i \in bad : TRUE].exc>>
  ELSE IF ~Monotone(em) THEN <<"op.monotone", "non-decreasing time-stamps", em>>
  ELSE IF ~AgreesWith(em, c.kind, c.a, c.b, c.sig) THEN <<"op.value", RefCells(c.kind, c.a, c.b, c.sig), em>>
  ELSE <<>>

Verdict(c) ==
  LET f == Fail(c)
      d == Drift(c, 1, InitTimed, {}) IN
  [tid |-> c.tid, ok |-> f = <<>>,
   clause |-> IF f = <<>> THEN "" ELSE f[1],
   step |-> d,
   exp |-> IF f = <<>> THEN "" ELSE ToString(f[2]),
   got |-> IF f = <<>> THEN "" ELSE ToString(f[3]),
   explained |-> {}, undef |-> 0, steps |-> Len(c.events),
   \* (diagnostics, not verdicts: call-by-call equality with the model; batches with strictly increasing time-stamps - the
   \*  property constrains the concatenation only, which must be non-decreasing)
   strict |-> \A i \in 1..Len(c.events) : StrictlyIncreasing(c.events[i].ret),
   exact |-> d = 0]

TInit == tid = 1
TNext == tid <= NCases /\ PrintT("VERDICT " \o ToJson(Verdict(Cases[tid]))) /\ tid' = tid + 1
TSpec == TInit /\ [][TNext]_tid
=============================================================================
