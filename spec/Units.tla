------------------------------- MODULE Units -------------------------------
(***************************************************************************)
(* Physical meaning of a temporal bound                                    *)
(* (discrete_time_interpreter.time_unit_transformer,                       *)
(*  dense_time_interpreter.time_unit_transformer,                          *)
(*  stl/parser_visitor interval visitors).                                   *)
(*                                                                         *)
(* A written bound is <<num, den, unit>>: the literal num/den followed by  *)
(* the unit suffix unit \in {"s","ms","us","ns",""} ("" = none written).   *)
(* Units are powers of ten of a nanosecond: Exp10(u).                      *)
(* Resolution of a missing suffix (README "Time units"):                   *)
(*   both missing          -> the default unit of the specification        *)
(*   exactly one missing   -> the unit written on the other bound          *)
(* Discrete time: a bound denotes  dur / period  samples and must be an    *)
(* integer (otherwise RTAMTException "must be a multiple of the sampling   *)
(* period").  Dense time: a bound denotes dur / (default unit) time units. *)
(* All arithmetic stays below 2^31; a case that would overflow is          *)
(* reported as "overflow" and skipped by the trace specification.          *)
(***************************************************************************)
EXTENDS Integers

UnitNames == {"s", "ms", "us", "ns"}
Exp10(u) == CASE u = "s" -> 9 [] u = "ms" -> 6 [] u = "us" -> 3 [] u = "ns" -> 0

RECURSIVE P10(_)
P10(k) == IF k = 0 THEN 1 ELSE 10 * P10(k - 1)

\* effective units of the two bounds of an interval
BeginUnit(au, bu, def) == IF au # "" THEN au ELSE IF bu # "" THEN bu ELSE def
EndUnit(au, bu, def)   == IF bu # "" THEN bu ELSE IF au # "" THEN au ELSE def

\* (num/den) * 10^eu  divided by  (pnum/pden) * 10^ep : result as <<kind, value>>,
\* kind \in {"int", "nonint", "overflow"}.  Everything stays below 2^31: inputs are bounded and the powers of
\* ten are applied one factor at a time with an overflow guard.
Lim == 200000000
RECURSIVE MulP10(_, _)
MulP10(x, k) == IF x < 0 THEN -1 ELSE IF k = 0 THEN x ELSE IF x > Lim \div 10 THEN -1 ELSE MulP10(x * 10, k - 1)

Ratio(num, den, eu, pnum, pden, ep) ==
  IF num > 100000 \/ den > 1000 \/ pnum > 100000 \/ pden > 1000 \/ den < 1 \/ pden < 1 \/ pnum < 1 \/ num < 0
    THEN <<"overflow", 0>>
  ELSE LET k == eu - ep
           n0 == num * pden
           d0 == den * pnum
           n == IF k >= 0 THEN MulP10(n0, k) ELSE n0
           d == IF k >= 0 THEN d0 ELSE MulP10(d0, -k) IN
       IF n < 0 \/ d < 0 THEN <<"overflow", 0>>
       ELSE IF n % d = 0 THEN <<"int", n \div d>> ELSE <<"nonint", 0>>

\* number of samples a discrete-time bound denotes
SamplesOf(num, den, unit, pnum, pden, punit) ==
  Ratio(num, den, Exp10(unit), pnum, pden, Exp10(punit))
=============================================================================
