SPECIFICATION Spec
INVARIANT UnitsThm
INVARIANT PeriodThm
INVARIANT ResolveThm
