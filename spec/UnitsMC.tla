------------------------------ MODULE UnitsMC ------------------------------
(***************************************************************************)
(* Theorems about Units.tla checked by TLC on a finite domain (C08):       *)
(* the number of samples a duration denotes does not depend on the unit it *)
(* is written in, nor on the unit the sampling period is written in, and   *)
(* the half-period durations are exactly the non-multiples.                *)
(***************************************************************************)
EXTENDS Units, FiniteSets

VARIABLE x
Init == x = 0
Next == x' = x
Spec == Init /\ [][Next]_x

Ks == 0..12                                  \* number of half periods
Periods == {<<1, "s">>, <<500, "ms">>, <<2, "ms">>, <<250, "us">>, <<1, "ms">>, <<100, "ms">>, <<2, "s">>}
PeriodNs(p) == p[1] * P10(Exp10(p[2]))
\* k half-periods written in unit u as a fraction num/den (den = 2 * 10^j absorbs the half and sub-unit decimals)
Written(k, p, u) ==
  LET halfNs == PeriodNs(p) \div 2 IN     \* all periods above are even numbers of ns
  IF k > 0 /\ halfNs > 2000000000 \div k THEN <<FALSE, 0, 1>> ELSE      \* beyond 32 bits
  LET totalNs == k * halfNs
      e == Exp10(u) IN
  IF totalNs % P10(e) = 0 THEN <<TRUE, totalNs \div P10(e), 1>>
  ELSE IF totalNs < 2000000 /\ (totalNs * 1000) % P10(e) = 0 THEN <<TRUE, (totalNs * 1000) \div P10(e), 1000>>
  ELSE <<FALSE, 0, 1>>

UnitsThm ==
  \A k \in Ks, p \in Periods, u \in UnitNames :
    LET w == Written(k, p, u) IN
    (w[1] /\ w[2] <= 100000) =>
      LET r == SamplesOf(w[2], w[3], u, p[1], 1, p[2]) IN
      \/ r[1] = "overflow"
      \/ (k % 2 = 0 /\ r = <<"int", k \div 2>>)
      \/ (k % 2 = 1 /\ r[1] = "nonint")

\* the period itself in another notation (1 s = 1000 ms = 1000000 us)
PeriodThm ==
  \A k \in 0..6, u \in UnitNames :
    LET a == SamplesOf(k, 1, "s", 1, 1, "s")
        b == SamplesOf(k, 1, "s", 1000, 1, "ms")
        c == SamplesOf(k * 1000, 1, "ms", 1000000, 1, "us") IN
    a = <<"int", k>> /\ (b[1] = "overflow" \/ b = a) /\ (c[1] = "overflow" \/ c = a)

\* unit resolution: a unit on one end applies to both, none means the default
ResolveThm ==
  \A au \in UnitNames \cup {""}, bu \in UnitNames \cup {""}, d \in UnitNames :
    /\ BeginUnit(au, bu, d) \in UnitNames /\ EndUnit(au, bu, d) \in UnitNames
    /\ (au # "" => BeginUnit(au, bu, d) = au) /\ (bu # "" => EndUnit(au, bu, d) = bu)
    /\ (au = "" /\ bu # "" => BeginUnit(au, bu, d) = bu) /\ (bu = "" /\ au # "" => EndUnit(au, bu, d) = au)
    /\ (au = "" /\ bu = "" => BeginUnit(au, bu, d) = d /\ EndUnit(au, bu, d) = d)
=============================================================================
