----------------------------- MODULE CounterAp -----------------------------
(***************************************************************************)
(* The sampling-violation counter of Rtamt.tla (BadGap, the viol clause of *)
(* UpdateF, ResetF), restated with Apalache type annotations so that       *)
(* property C13 can be checked symbolically in the numeric dimension TLC   *)
(* can only sample: every period P in 1..2000, every absolute tolerance    *)
(* Tol in 0..P, every non-decreasing integer time-stamp sequence in        *)
(* 0..100000, Reset anywhere.                                              *)
(***************************************************************************)
EXTENDS Integers, Sequences, FiniteSets

CONSTANTS
  \* @type: Int;
  P,
  \* @type: Int;
  Tol

VARIABLES
  \* @type: Seq(Int);
  ts,
  \* @type: Int;
  viol

ConstInit == P \in 1..2000 /\ Tol \in 0..2000 /\ Tol <= P

BadGap(g) == g < P - Tol \/ g > P + Tol

Init == ts = <<>> /\ viol = 0

Update == \E t \in 0..100000 :
            /\ (Len(ts) = 0 \/ t >= ts[Len(ts)])
            /\ ts' = Append(ts, t)
            /\ viol' = IF Len(ts) > 0 /\ BadGap(t - ts[Len(ts)]) THEN viol + 1 ELSE viol

Reset == ts' = <<>> /\ viol' = 0

Next == Update \/ Reset

\* C13: the counter equals the number of out-of-tolerance gaps since the last reset
Inv == viol = Cardinality({k \in DOMAIN ts : k < Len(ts) /\ BadGap(ts[k + 1] - ts[k])})

\* deviation used to show the check is not vacuous: closed band taken as open (must be violated)
InvOpenBand == viol = Cardinality({k \in DOMAIN ts : k < Len(ts) /\
                      (ts[k + 1] - ts[k] <= P - Tol \/ ts[k + 1] - ts[k] >= P + Tol)})
=============================================================================
