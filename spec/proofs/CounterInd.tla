---------------------------- MODULE CounterInd ----------------------------
(* Property C13 for time-stamp sequences of ANY length: the counter clauses of Rtamt.tla (BadGap, the viol clause of
   UpdateF, ResetF) - the same machine as spec/apalache/CounterAp.tla, which Apalache checks up to a bounded length -
   keep the invariant  viol = number of out-of-tolerance gaps since the last reset.  TLAPS proves the invariant
   inductive, for every period P, tolerance Tol and every sequence of integer time-stamps, Reset anywhere. *)
EXTENDS Integers, Sequences, FiniteSets, FiniteSetTheorems, TLAPS

CONSTANTS P, Tol
ASSUME PT == P \in Int /\ Tol \in Int

VARIABLES ts, viol

BadGap(g) == g < P - Tol \/ g > P + Tol

Bad(s) == {k \in 1 .. (Len(s) - 1) : BadGap(s[k + 1] - s[k])}

Init == ts = <<>> /\ viol = 0

Update(t) == /\ ts' = Append(ts, t)
             /\ viol' = IF Len(ts) > 0 /\ BadGap(t - ts[Len(ts)]) THEN viol + 1 ELSE viol

Reset == ts' = <<>> /\ viol' = 0

Next == (\E t \in Int : Update(t)) \/ Reset

TypeOK == ts \in Seq(Int) /\ viol \in Nat

Inv == TypeOK /\ viol = Cardinality(Bad(ts))

LEMMA BadFinite == \A s \in Seq(Int) : IsFiniteSet(Bad(s))
  <1> TAKE s \in Seq(Int)
  <1>1. IsFiniteSet(1 .. (Len(s) - 1))
    BY FS_Interval
  <1>2. Bad(s) \subseteq 1 .. (Len(s) - 1)
    BY DEF Bad
  <1> QED BY <1>1, <1>2, FS_Subset

THEOREM InitInv == Init => Inv
  <1> SUFFICES ASSUME Init PROVE Inv
    OBVIOUS
  <1>1. ts = <<>> /\ viol = 0
    BY DEF Init
  <1>2. Bad(ts) = {}
    BY <1>1 DEF Bad
  <1>3. Cardinality(Bad(ts)) = 0
    BY <1>2, FS_EmptySet
  <1> QED BY <1>1, <1>3 DEF Inv, TypeOK

THEOREM StepInv == Inv /\ [Next]_<<ts, viol>> => Inv'
  <1> SUFFICES ASSUME Inv, [Next]_<<ts, viol>> PROVE Inv'
    OBVIOUS
  <1> USE PT
  <1>1. CASE UNCHANGED <<ts, viol>>
    BY <1>1 DEF Inv, TypeOK, Bad
  <1>2. CASE Reset
    <2>1. ts' = <<>> /\ viol' = 0
      BY <1>2 DEF Reset
    <2>2. Bad(ts') = {}
      BY <2>1 DEF Bad
    <2>3. Cardinality(Bad(ts')) = 0
      BY <2>2, FS_EmptySet
    <2> QED BY <2>1, <2>3 DEF Inv, TypeOK
  <1>3. ASSUME NEW t \in Int, Update(t) PROVE Inv'
    <2> DEFINE n == Len(ts)
    <2>0. ts \in Seq(Int) /\ viol \in Nat /\ viol = Cardinality(Bad(ts)) /\ n \in Nat
      BY DEF Inv, TypeOK
    <2>1. ts' = Append(ts, t) /\ ts' \in Seq(Int) /\ Len(ts') = n + 1
      BY <1>3, <2>0 DEF Update
    <2>2. \A k \in 1 .. n : ts'[k] = ts[k]
      BY <2>0, <2>1
    <2>3. ts'[n + 1] = t
      BY <2>0, <2>1
    <2>4. IsFiniteSet(Bad(ts))
      BY <2>0, BadFinite
    <2>5. n \notin Bad(ts)
      BY <2>0 DEF Bad
    <2>6. CASE n > 0 /\ BadGap(t - ts[n])
      <3>1. Bad(ts') = Bad(ts) \cup {n}
        <4>1. \A k \in 1 .. (n - 1) : ts'[k + 1] - ts'[k] = ts[k + 1] - ts[k]
          BY <2>0, <2>2
        <4>2. ts'[n + 1] - ts'[n] = t - ts[n]
          BY <2>0, <2>2, <2>3, <2>6
        <4>3. Bad(ts') = {k \in 1 .. n : BadGap(ts'[k + 1] - ts'[k])}
          BY <2>0, <2>1 DEF Bad
        <4>4. Bad(ts) = {k \in 1 .. (n - 1) : BadGap(ts[k + 1] - ts[k])}
          BY DEF Bad
        <4> QED BY <4>1, <4>2, <4>3, <4>4, <2>6, <2>0
      <3>2. Cardinality(Bad(ts')) = Cardinality(Bad(ts)) + 1
        BY <3>1, <2>4, <2>5, FS_AddElement
      <3>3. viol' = viol + 1
        BY <1>3, <2>6 DEF Update
      <3> QED BY <2>0, <2>1, <3>2, <3>3 DEF Inv, TypeOK
    <2>7. CASE ~(n > 0 /\ BadGap(t - ts[n]))
      <3>1. Bad(ts') = Bad(ts)
        <4>1. \A k \in 1 .. (n - 1) : ts'[k + 1] - ts'[k] = ts[k + 1] - ts[k]
          BY <2>0, <2>2
        <4>3. Bad(ts') = {k \in 1 .. n : BadGap(ts'[k + 1] - ts'[k])}
          BY <2>0, <2>1 DEF Bad
        <4>4. Bad(ts) = {k \in 1 .. (n - 1) : BadGap(ts[k + 1] - ts[k])}
          BY DEF Bad
        <4>5. CASE n = 0
          BY <4>3, <4>4, <4>5
        <4>6. CASE n > 0
          <5>1. ts'[n + 1] - ts'[n] = t - ts[n]
            BY <2>0, <2>2, <2>3, <4>6
          <5>2. ~BadGap(ts'[n + 1] - ts'[n])
            BY <5>1, <2>7, <4>6
          <5>3. \A k \in 1 .. n : BadGap(ts'[k + 1] - ts'[k]) => k \in 1 .. (n - 1) /\ BadGap(ts[k + 1] - ts[k])
            BY <4>1, <5>2, <2>0, <4>6
          <5>4. \A k \in 1 .. (n - 1) : BadGap(ts[k + 1] - ts[k]) => k \in 1 .. n /\ BadGap(ts'[k + 1] - ts'[k])
            BY <4>1, <2>0, <4>6
          <5> QED BY <4>3, <4>4, <5>3, <5>4
        <4> QED BY <4>5, <4>6, <2>0
      <3>3. viol' = viol
        BY <1>3, <2>7 DEF Update
      <3> QED BY <2>0, <2>1, <3>1, <3>3 DEF Inv, TypeOK
    <2> QED BY <2>6, <2>7
  <1> QED BY <1>1, <1>2, <1>3 DEF Next

THEOREM C13Unbounded == Init /\ [][Next]_<<ts, viol>> => []Inv
  BY InitInv, StepInv, PTL
==========================================================================
