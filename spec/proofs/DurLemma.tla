---------------------------- MODULE DurLemma ----------------------------
(* The comparison of two durations a * 10^ea <= b * 10^eb used by Lang!StaticOK (DurLE) avoids large products by
   dividing instead; this module proves the two arithmetic facts it rests on for the unit ratios 10^3, 10^6, 10^9. *)
EXTENDS Integers, TLAPS

P10(d) == CASE d = 0 -> 1 [] d = 3 -> 1000 [] d = 6 -> 1000000 [] OTHER -> 1000000000

THEOREM DivDown == \A a, b \in Nat : \A k \in {1, 1000, 1000000, 1000000000} : (a <= b \div k) <=> (a * k <= b)
  BY SMT

THEOREM DivUp == \A a, b \in Nat : \A k \in {1, 1000, 1000000, 1000000000} : ((a + k - 1) \div k <= b) <=> (a <= b * k)
  BY SMT
==========================================================================
