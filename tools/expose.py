import sys; sys.path.insert(0,'/verif/harness'); sys.path.insert(0,'/verif/checks')
import core, importlib
fid, mod = sys.argv[1], sys.argv[2]
lf=core.load_findings
def lf2():
    d=lf(); d['findings']=[f for f in d['findings'] if f['id']!=fid]; return d
core.load_findings=lf2
m=importlib.import_module(mod)
m.main()
