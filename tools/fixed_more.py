MORE = [
 ("C04", "dropped the leading segment in which it is -inf", "dense-time offline since (and since[a,b]) dropped the leading segment whose value is -inf: the result did not start at the domain begin"),
 ("C17", "could not evaluate unary minus, ln and log", "dense-time online monitor used the discrete-time Negate/Ln/Log operations (TypeError on the first update); dense NegateOperation raised on negative samples (also C05)"),
 ("C08", "unit written on the begin only raised KeyError", "a bound with the unit on the begin only ('once[2ms:5]') raised KeyError '' at the first evaluation (discrete and dense)"),
 ("C08", "pastify() ignored the units of temporal bounds", "pastify() added raw bound numbers of different units and rebuilt intervals without units; next counted as one default unit instead of one period (README time_units_8) (also C03)"),
 ("C08", "conversion of a bound to the default unit was inverted", "dense-time bound conversion inverted: with default unit s, once[0:2000ms] became a 2 000 000 s window"),
 ("C17", "did not reject s_prev / s_next", "dense-time monitors: s_prev/s_next were not rejected (offline evaluated s_prev(p) as p, online raised KeyError)"),
 ("C15", "untimed 'unless' crashed the parser", "untimed 'p unless q' raised AttributeError in the STL and LTL parser visitors (also C14)"),
 ("C14", "start no token were printed and skipped", "illegal characters were printed and skipped by the lexer: 'x # >= 3' parsed as 'x >= 3'"),
 ("C14", "undeclared variable raised KeyError", "an undeclared identifier raised KeyError in parse() instead of being implicitly declared as the warning says (also C17)"),
 ("C14", "KeyError 'default'", "a bound given by a declared constant without unit raised KeyError 'default' at the first evaluation (also C09)"),
 ("C14", "begin > end was accepted", "intervals with begin > end were accepted by parse() and crashed or misbehaved in the monitors"),
 ("C14", "empty specification text raised IndexError", "parse() of an empty / blank text raised IndexError"),
]
