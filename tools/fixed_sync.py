#!/usr/bin/env python3
"""Rewrites the 'fixed' entries of known_findings.json from the table below, looking up each fix commit's
current hash in /repo by its subject (hashes change if the fix commits are rebased)."""
import json, subprocess
TABLE = [
 ("C01", "offline monitor ignored unary minus", "discrete-time offline evaluate() ignored unary minus / ln / log: 'x >= -1' evaluated as 'x >= 1' (also C16 C18 C19)"),
 ("C13", "ran once after the loop", "offline sampling_violation_counter tested only the last gap; one-sample data set raised UnboundLocalError (also C17)"),
 ("C11", "padded the operand list in place", "offline always[a,b]/eventually[a,b] on a trace shorter than b extended the caller's list in place (also C12)"),
 ("C17", "KeyError for a declared variable", "online update() raised KeyError for a declared/supplied variable the formula does not use (discrete and dense)"),
 ("C02", "stepped a shared operator once per occurrence", "online operators shared by name were stepped once per occurrence: 'prev(y) or not prev(y)', referenced sub-specifications, unless (also C09 C12 C15)"),
 ("C03", "horizon of next / s_next", "horizon of next/s_next was the operand's horizon: '(next x) and y' pastified to 'x and y'"),
 ("C03", "dropped historically[a,b]", "pastifier replaced a delayed historically[a,b] by once[d,d] of its operand"),
 ("C03", "silently dropped unary minus, ln and log", "pastify() dropped unary minus / ln / log nodes (also C08)"),
 ("C10", "before the first update() raised AttributeError", "reset() before the first update() raised AttributeError (interpreter had no AST yet)"),
 ("C13", "compared gaps and period in different units", "gap (in spec.unit) compared with the raw sampling period number of another unit: README time_units_5 counted 2 instead of 0"),
 ("C13", "combined specification ignored evaluate()", "StlDiscreteTimeSpecification.sampling_violation_counter read only the online interpreter: 0 after evaluate() on jittered stamps"),
 ("C08", "spec.unit was not forwarded", "spec.unit was not forwarded to the AST: default unit always 's' (README time_units_6/7) (also C13)"),
 ("C10", "with sub-specifications raised an exception", "reset() of an online monitor with sub-specifications raised AttributeError (and KeyError after pastify()) (also C09)"),
]
import sys
sys.path.insert(0, "/verif/tools")
try:
    from fixed_more import MORE
    TABLE += MORE
except ImportError:
    pass
log = subprocess.run("git -C /repo log --format='%h %s'", shell=True, stdout=subprocess.PIPE, universal_newlines=True).stdout.splitlines()
p = "/verif/known_findings.json"
d = json.load(open(p))
out = []
for prop, key, what in TABLE:
    hs = [l.split()[0] for l in log if l.split(" ", 1)[1].startswith("fix:") and key in l]
    assert len(hs) == 1, (key, hs)
    out.append("fixed: property=%s %s %s" % (prop, hs[0], what))
d["fixed"] = out
json.dump(d, open(p, "w"), indent=1)
print(len(out), "fixed entries")
