#!/usr/bin/env python3
"""usage: keep_seed.py <src dir> <k> <seed id> <caught-by checks,comma> [<missed-by,comma>]
Confirms a sub-agent's seeded change in a scratch worktree (tests still 509 passed, demo fails with the change and
passes without) and stores it as /verif/seeded/<seed id>/{patch.diff,demo.py,meta.json}."""
import json, os, shutil, subprocess, sys
src, k, sid, caught = sys.argv[1:5]
missed = sys.argv[5] if len(sys.argv) > 5 else ""
wt = "/tmp/confirm_" + sid
def sh(cmd, **kw):
    return subprocess.run(cmd, shell=True, stdout=subprocess.PIPE, stderr=subprocess.STDOUT, universal_newlines=True, **kw)
sh("git -C /repo worktree remove --force %s" % wt)
r = sh("git -C /repo worktree add -q --detach %s HEAD" % wt); assert r.returncode == 0, r.stdout
try:
    patch = os.path.join(src, "patch%s.diff" % k); demo = os.path.join(src, "demo%s.py" % k)
    r = sh("git apply %s" % patch, cwd=wt); assert r.returncode == 0, "patch does not apply: " + r.stdout
    t = sh("PYTHONPATH=%s /venv/bin/python -m pytest -q -p no:cacheprovider --continue-on-collection-errors tests/python 2>&1 | tail -1" % wt, cwd=wt).stdout.strip()
    assert "509 passed" in t and "failed" not in t, t
    d1 = sh("PYTHONPATH=%s /venv/bin/python %s" % (wt, demo), cwd=wt)
    sh("git checkout -- .", cwd=wt)
    d0 = sh("PYTHONPATH=%s /venv/bin/python %s" % (wt, demo), cwd=wt)
    assert d1.returncode != 0, "demo passes with the change"
    assert d0.returncode == 0, "demo fails without the change: " + d0.stdout[-500:]
    meta = json.load(open(os.path.join(src, "meta%s.json" % k)))
    out = os.path.join("/verif/seeded", sid); os.makedirs(out, exist_ok=True)
    shutil.copy(patch, os.path.join(out, "patch.diff")); shutil.copy(demo, os.path.join(out, "demo.py"))
    head = sh("git -C /repo log --format=%h -1").stdout.strip()
    meta.update({"id": sid, "breaks_property": meta.get("property"), "confirmed": {
        "repo_head": head, "tests_with_change": t, "demo_with_change_exit": d1.returncode, "demo_without_change_exit": d0.returncode,
        "ran": ["git apply patch.diff (scratch worktree of /repo HEAD)", "pytest tests/python", "python demo.py (with / without change)"]},
        "caught_by": [c for c in caught.split(",") if c], "missed_by_at_first": [c for c in missed.split(",") if c]})
    json.dump(meta, open(os.path.join(out, "meta.json"), "w"), indent=1)
    print("kept", sid, "|", meta.get("summary", "")[:100])
finally:
    sh("git -C /repo worktree remove --force %s" % wt)
