#!/usr/bin/env python3
"""Regenerates MANIFEST.json from the table below (kept valid at all times)."""
import json, os
V = os.path.dirname(os.path.dirname(os.path.abspath(__file__)))
props = [json.loads(l) for l in open(os.path.join(V, "properties.jsonl"))]
BASE = "cd /repo && /venv/bin/python -m pytest -ra -q -p no:cacheprovider --timeout=900 --continue-on-collection-errors"
TB = ("TLC/SANY; CommunityModules Json/IOUtils; CPython float arithmetic on dyadic numbers; the harness codec (harness/astlib.py, "
      "runner.py: value scaling, AST printer/read-back); values limited to the lattices stated in DESIGN.md section 3.2")
CHECKS = {
 "C01": ("TLA+ semantics Sem!Sig as oracle in trace validation (TraceDt) of recorded evaluate() calls",
         "README semantics written as the TLA+ signal transformer Sem!Sig; every recorded evaluate() result (value per sample, echoed stamps, length) of random formulas/traces is validated by TLC against it", "4 C01"),
 "C02": ("TLC model checking of the operator-memory machine (Online.tla) against Sem!Sig + trace validation of update() sequences",
         "operational model of the online operators model-checked against the declarative semantics for every past operator, interval and textual duplicate over all short traces; recorded update() returns validated step by step", "4 C02"),
 "C03": ("TLC model checking of the pastifier model (Past.tla) + trace validation of parse/pastify/update runs",
         "pastification scheme model-checked (delayed original robustness) on bounded-future universes, deviation-on configs must fail; recorded monitors validated against Sig(original) delayed by the horizon", "4 C03"),
 "C10": ("TLC: Reset enabled in every state of the online machine (action property + fresh-replay invariant) + trace validation against the model and a fresh real object",
         "reset reachable at every point of every update history in the model; recorded reset runs (multiple resets, reset before first update) compared with the model and with a brand-new object", "4 C10"),
 "C13": ("TLC model checking of the counter machine over gap-class sequences + trace validation online and offline",
         "counter = number of out-of-tolerance gaps model-checked over all gap-class sequences/tolerances with Reset; recorded counters for 9 unit configurations validated after every call", "4 C13"),
}
checks = []
for pid, (tech, text, ref) in sorted(CHECKS.items()):
    checks.append({"property_id": pid, "quick_cmd": "./check %s --tier quick" % pid, "thorough_cmd": "./check %s --tier thorough" % pid,
                   "evidence_file": "evidence/%s.json" % pid, "replay_cmd_template": "./check %s --replay {path}" % pid,
                   "engine": "tlc", "level_claimed": {"category": "model_checking", "text": text, "design_ref": "DESIGN.md section " + ref},
                   "level_note": TB, "technique": tech})
m = {"version": 1,
     "setup_cmd": "sh tools/setup.sh",
     "hooks": {"guard": "RTAMT_VERIF", "enable": "no source hooks: rtamt is sequential Python and exposes the abstract state through its API; RTAMT_VERIF=1 only marks harness-side recording",
               "baseline_off_cmd": BASE, "source_commits": [], "add_only": True},
     "engines": [{"name": "tlc", "path": "harness/tlc.py", "serves_properties": sorted(CHECKS), "kind_free_text": "TLC model checking of spec/*.tla + batch trace validation (spec/Trace*.tla) of executions recorded by harness/runner.py from /repo's working tree"}],
     "checks": checks,
     "notes": "see DESIGN.md; known findings in known_findings.json",
     "not_applicable": [{"property_id": p["id"], "reason": "check not built yet (work in progress)"} for p in props if p["id"] not in CHECKS]}
json.dump(m, open(os.path.join(V, "MANIFEST.json"), "w"), indent=1)
print("checks:", len(checks))
