#!/usr/bin/env python3
"""Regenerates MANIFEST.json from the table below (kept valid at all times)."""
import json, os
V = os.path.dirname(os.path.dirname(os.path.abspath(__file__)))
props = [json.loads(l) for l in open(os.path.join(V, "properties.jsonl"))]
BASE = "cd /repo && /venv/bin/python -m pytest -ra -q -p no:cacheprovider --timeout=900 --continue-on-collection-errors"
TB = ("TLC/SANY; CommunityModules Json/IOUtils; CPython float arithmetic on dyadic numbers; the harness codec (harness/astlib.py, "
      "runner.py: value scaling, AST printer/read-back); values limited to the lattices stated in DESIGN.md section 3.2")
CHECKS = {
 "C01": ("TLA+ semantics Sem!Sig as oracle in trace validation (TraceDt) of recorded evaluate() calls",
         "README semantics written as the TLA+ signal transformer Sem!Sig; every recorded evaluate() result (value per sample, echoed stamps, length) of random formulas/traces is validated by TLC against it", "4 C01"),
 "C02": ("TLC model checking of the operator-memory machine (Online.tla) against Sem!Sig + trace validation of update() sequences",
         "operational model of the online operators model-checked against the declarative semantics for every past operator, interval and textual duplicate over all short traces; recorded update() returns validated step by step", "4 C02"),
 "C03": ("TLC model checking of the pastifier model (Past.tla) + trace validation of parse/pastify/update runs",
         "pastification scheme model-checked (delayed original robustness) on bounded-future universes, deviation-on configs must fail; recorded monitors validated against Sig(original) delayed by the horizon", "4 C03"),
 "C10": ("TLC: Reset enabled in every state of the online machine (action property + fresh-replay invariant) + trace validation against the model and a fresh real object",
         "reset reachable at every point of every update history in the model; recorded reset runs (multiple resets, reset before first update) compared with the model and with a brand-new object", "4 C10"),
 "C13": ("TLC model checking of the counter machine over gap-class sequences (actions Update, Reset, Reconfigure, Retolerance) + TLAPS proof of the inductive invariant for all lengths + Apalache symbolic check + trace validation online and offline, incl. TLC-simulated behaviours replayed",
         "counter = number of out-of-tolerance gaps model-checked over all gap-class sequences/tolerances with Reset and re-configuration; proved inductive for unbounded traces (spec/proofs/CounterInd.tla); recorded counters for 12 unit configurations validated after every call", "4 C13"),
 "C06": ("TLC model checking of the online machine under the 5 interface-aware modes against Sem!Sig (RhoIA), of the offline machine with Reconfigure, and of the dense-time operational models + trace validation of discrete- and dense-time monitors of all semantics, incl. TLC-simulated behaviours with re-configuration replayed",
         "interface-aware predicate clause modelled once (Sem!PredIA) and used by both the declarative semantics and the operational online model; model-checked for 5 semantics x all IO assignments; recorded offline/online runs validated, STANDARD compared under opposite declarations", "4 C06"),
 "C07": ("TLC model checking of theorems SignSound/BallSound over Sem!Sig and Sem!Sat + trace validation of the sign of recorded values against Sem!Sat and of Sat-invariance on perturbed traces",
         "sign and magnitude soundness are theorems of the specification checked on all short traces; the implementation's reported numbers are bound directly to the Boolean semantics (not through Sig)", "4 C07"),
 "C09": ("trace validation of modular vs inlined real objects (offline, online, pastified, re-parsed) against the model and each other; TLC model checking of shared operator memories and of the offline machine with Reparse, TLC-simulated behaviours replayed",
         "random decompositions into sub-specifications/constants via both API forms; read-back AST must equal the inlined formula; both objects validated against the machine and compared", "4 C09"),
 "C11": ("TLC model checking of K=2 interleavings (isolation action property) + trace validation of interleaved executions on shared caller data under several PYTHONHASHSEED values",
         "isolation is an action property of the machine; recorded interleaved runs with shared caller-owned data, repeated evaluate(), and 4-16 hash seeds are validated by one deterministic specification and compared across seeds", "4 C11"),
 "C12": ("trace validation of get_value() observations against Sem!Sig of the named formula and against a real stand-alone object per name",
         "get_value of every name and variable after every call; oracle 1 = a real stand-alone specification object, oracle 2 = the model (delayed by the name's own horizon after pastify)", "4 C12"),
 "C16": ("TLC model checking of the action property on Extend (every trace/extension pair) + trace validation of evaluate(w1)/evaluate(w2) pairs",
         "stability of settled values is an action property of the offline machine checked on all short traces; recorded pairs compared with each other on the settled region and with the model", "4 C16"),
 "C18": ("TLC model checking of each law as an invariant Sig(lhs)=Sig(rhs) on all short traces + trace validation of both sides on the same real monitor",
         "laws are theorems of the specification's semantics; both sides run on the same real monitor (offline, online, pastified) and are compared pointwise, independent of Sig", "4 C18"),
 "C04": ("TLC model checking of the operational model of the dense-time offline monitor (DenseOff.tla: list merge, forward/backward sweeps of the bounded operators, since/until folds) against the cell-exact semantics Dense!SigC (DenseOffMC); trace validation (TraceCt) of evaluate() results against Dense!SigC, every evaluate() also compared with the operational model",
        "dense-time semantics specified exactly on unit cells (integer break-points and bounds, held tail with settling extension); every recorded result must be monotone, start at the domain begin and equal SigC at every cell start and mid-point; the offline algorithms themselves are transcribed and proved to denote SigC on all short signals, and their call-by-call equality with the code is measured on every run", "4 C04"),
 "C05": ("TLC model checking of the operational model of the dense-time online monitor (DenseOn.tla: pending-interval lists of once/historically[a,b], 13-case stream intersection, operator buffers) over every chunking / per-variable schedule (DenseOnMC, DenseOnFMC); TLC behaviours replayed on the real operator classes (TraceOp); trace validation (TraceCt) of whole monitors under many chunkings against Dense!SigC, every update() also compared with the operational model",
        "the update() contract mentions no chunking at all: concatenated outputs must denote SigC of the whole fed signal wherever defined; all-at-once, one-per-update, random and staggered per-variable schedules; exhaustive over schedules on the model, whose call-by-call equality with the code is measured on every run", "4 C05"),
 "C08": ("Units!SamplesOf / Norm!NormAst compute the samples each written bound denotes; trace validation of 2-3 spellings per duration on offline, online, pastified and dense monitors",
         "the physical meaning of a written bound (literal, unit suffix on either end, default unit, period unit) is computed by the specification, each spelling validated against the model and spellings against each other; non-multiples must raise RTAMTException", "4 C08"),
 "C14": ("Lang!Derivable (token-level recogniser of the grammar) and Lang!StaticOK decide legitimacy of every parse() acceptance recorded from exhaustive short and random/mutated token strings",
         "all token strings up to length L over one representative per class plus random and mutated specifications; outcome must be success or RTAMTException, success only for derivable texts with well-formed intervals; termination by time limit", "4 C14"),
 "C15": ("Lang!ParseAssertion (precedence parser derived from the alternative order of StlParser.g4) produces the AST of each spelling; trace validation of read-back AST and results against the canonical spelling",
         "spelling variants (aliases, separators, minimal/redundant parentheses, optional head and ';', LTL front end, unless sugar) generated per AST; the grammar model must parse them to that AST and the real parser must agree in AST and results", "4 C15"),
 "C17": ("outcome machine of the specification (ok / RTAMTException per public call) validated against recorded outcome classes on six monitor kinds and degenerate data shapes",
         "supportedness per monitor kind is a predicate of the specification (CanUpdate, Pastifiable, DenseOK, OnlineCtOK); any other exception class or a value from an unsupported construct is a violation", "4 C17"),
 "C19": ("TLC model checking of theorem DenseEqDiscrete (SigC = Sig at sampling instants) + trace validation of the real dense vs real discrete monitors on aligned data",
         "agreement is a theorem of the two semantics checked on all short traces; the two real monitors are compared on the same grid-aligned data for periods 1-3", "4 C19"),
 "C20": ("TLC model checking of the operational model of the explainer (Explain.tla: one clause per explain_* function) - the reported positions are a sufficient cause for every formula of depth <= 2 x every short trace (ExplainMC); trace validation of explain() reports: TLC enumerates every re-assignment of unreported samples over region representatives and evaluates Sem!Sat; every report is also compared with the model",
         "sufficient cause is checked exhaustively per recorded report over all region-representative re-assignments of the unreported positions (traces up to 5 samples, 2 variables), and at design level on the transcribed explainer, whose equality with the code (reported position sets) is measured on every run", "4 C20"),
}
checks = []
for pid, (tech, text, ref) in sorted(CHECKS.items()):
    checks.append({"property_id": pid, "quick_cmd": "./check %s --tier quick" % pid, "thorough_cmd": "./check %s --tier thorough" % pid,
                   "evidence_file": "evidence/%s.json" % pid, "replay_cmd_template": "./check %s --replay {path}" % pid,
                   "engine": "tlc", "level_claimed": {"category": "model_checking", "text": text, "design_ref": "DESIGN.md section " + ref},
                   "level_note": TB, "technique": tech})
m = {"version": 1,
     "setup_cmd": "sh tools/setup.sh",
     "hooks": {"guard": "RTAMT_VERIF", "enable": "no source hooks: rtamt is sequential Python and exposes the abstract state through its API; RTAMT_VERIF=1 only marks harness-side recording",
               "baseline_off_cmd": BASE, "source_commits": [], "add_only": True},
     "engines": [{"name": "tlc", "path": "harness/tlc.py", "serves_properties": sorted(CHECKS), "kind_free_text": "TLC model checking of spec/*.tla + batch trace validation (spec/Trace*.tla) of executions recorded by harness/runner.py from /repo's working tree"}],
     "checks": checks,
     "notes": "see DESIGN.md; known findings in known_findings.json",
     "not_applicable": [{"property_id": p["id"], "reason": "check not built yet (work in progress)"} for p in props if p["id"] not in CHECKS]}
# (kept, empty: every property of properties.jsonl is claimed)
json.dump(m, open(os.path.join(V, "MANIFEST.json"), "w"), indent=1)
print("checks:", len(checks))
