#!/usr/bin/env python3
"""Mutation survey: how many small edits of rtamt that the 509 tests do not notice are noticed by the checks?

usage: mutsurvey.py gen   <out.jsonl>                      enumerate one-token mutants of the library source
       mutsurvey.py tests <mutants.jsonl> <out.jsonl> [n] [seed]   sample n mutants, keep those on which tests/python still passes
       mutsurvey.py checks <survivors.jsonl> <out.jsonl>   run the checks mapped to the mutated file against each survivor (quick tier)

Every mutant lives in its own scratch copy (rtamt/ + tests/python) under /dev/shm/mut_<k>, removed at once.
Nothing is written to /repo.  The result is a table (DESIGN.md section 7); survivors of the checks are read by hand:
equivalent mutant, outside the properties, or a gap of a check."""
import json, os, random, re, shutil, subprocess, sys
from concurrent.futures import ThreadPoolExecutor

REPO = os.environ.get("VERIF_REPO", "/repo")
VERIF = os.path.dirname(os.path.dirname(os.path.abspath(__file__)))
SHM = "/dev/shm"

# file prefix (under rtamt/) -> checks that own the mechanism, most specific first
MAP = [
    ("semantics/stl/discrete_time/offline/", ["C01", "C16", "C18"]),
    ("semantics/arithmetic/discrete_time/offline", ["C01"]),
    ("semantics/iastl/discrete_time/offline", ["C06"]),
    ("semantics/iastl/discrete_time/online", ["C06"]),
    ("semantics/iastl/dense_time/offline", ["C06"]),
    ("semantics/iastl/dense_time/online", ["C06"]),
    ("semantics/stl/discrete_time/online/cpp", []),
    ("semantics/stl/discrete_time/online/", ["C02", "C03", "C10"]),
    ("semantics/arithmetic/discrete_time/online", ["C02", "C10"]),
    ("semantics/arithmetic/dense_time/online", ["C05", "C17"]),
    ("semantics/stl/dense_time/offline/", ["C04", "C16", "C19"]),
    ("semantics/stl/dense_time/online/", ["C05", "C10", "C06"]),
    ("semantics/abstract_online_interpreter", ["C02", "C10", "C12", "C09"]),
    ("semantics/abstract_discrete_time_online_interpreter", ["C02", "C13", "C10", "C12"]),
    ("semantics/abstract_discrete_time_offline_interpreter", ["C01", "C13", "C12", "C11"]),
    ("semantics/abstract_dense_time_online_interpreter", ["C05", "C10", "C12", "C17"]),
    ("semantics/abstract_dense_time_offline_interpreter", ["C04", "C12", "C17"]),
    ("semantics/abstract_interpreter", ["C01", "C02", "C12"]),
    ("semantics/discrete_time_interpreter", ["C08", "C13", "C03"]),
    ("semantics/dense_time_interpreter", ["C08", "C04"]),
    ("semantics/interval", ["C05", "C04"]),
    ("semantics/sample", ["C05"]),
    ("semantics/enumerations", ["C06", "C01"]),
    ("semantics/", ["C01", "C02", "C04", "C05"]),
    ("pastifier/", ["C03", "C08", "C05", "C18"]),
    ("explanation/", ["C20"]),
    ("spec/", ["C09", "C10", "C12", "C13", "C17", "C08", "C03"]),
    ("syntax/ast/parser/", ["C15", "C14", "C09", "C17", "C08"]),
    ("syntax/ast/visitor", ["C01", "C15"]),
    ("syntax/node/", ["C06", "C12", "C15", "C03"]),
    ("exception", ["C14", "C17"]),
    ("", ["C01", "C02"]),
]
SKIP_DIRS = ("antlr", "cpp", "lib", "xml", "ros")

SUBS = [
    (r"<=", "<"), (r">=", ">"), (r"(?<![<>=!])<(?![<=])", "<="), (r"(?<![<>=!-])>(?![>=])", ">="),
    (r"==", "!="), (r"!=", "=="),
    (r"\bmin\(", "max("), (r"\bmax\(", "min("),
    (r"\+ 1\b", "- 1"), (r"- 1\b", "+ 1"), (r"\+ 1\b", ""), (r"- 1\b", ""),
    (r"-float\(\"inf\"\)", "float(\"inf\")"), (r"-float\('inf'\)", "float('inf')"),
    (r"(?<!-)float\(\"inf\"\)", "-float(\"inf\")"), (r"(?<!-)float\('inf'\)", "-float('inf')"),
    (r"\band\b", "or"), (r"\bor\b", "and"), (r"\bnot ", ""),
    (r"\bTrue\b", "False"), (r"\bFalse\b", "True"),
    (r"\bbegin\b", "end"), (r"\bend\b", "begin"),
    (r"\[0\]", "[1]"), (r"\[1\]", "[0]"), (r"\[-1\]", "[0]"), (r"\[0\]", "[-1]"),
    (r"\bi\b", "i + 1"), (r"\bleft\b", "right"), (r"\bright\b", "left"),
    (r"\bin_vars\b", "out_vars"), (r"\bout_vars\b", "in_vars"),
    (r"\.append\(", ".insert(0, "), (r"\b0\b", "1"), (r"\b1\b", "0"), (r"\b1\b", "2"),
    (r"\bprev\b", "cur"), (r"\bis None\b", "is not None"), (r"\bis not None\b", "is None"),
    (r"\bcontinue\b", "break"), (r"\bbreak\b", "continue"),
    (r"\* ", "+ "), (r"(?<![=(,\[:]) - ", " + "), (r" \+ ", " - "), (r" / ", " * "),
]
STMT_DEL = re.compile(r"^(\s+)(self\.[\w.\[\]'\"]+\s*=[^=].*|[\w.]+\.(append|pop|popleft|extend|update|reset|clear|add|remove)\(.*\)|del .*|\w+\s*[+-]=.*)$")


def files():
    out = []
    for root, dirs, fs in os.walk(os.path.join(REPO, "rtamt")):
        rel = os.path.relpath(root, os.path.join(REPO, "rtamt"))
        if any(p in rel.split(os.sep) for p in SKIP_DIRS):
            continue
        for f in fs:
            if f.endswith(".py") and f != "__init__.py":
                out.append(os.path.normpath(os.path.join(rel, f)))
    return sorted(out)


def gen(outp):
    n = 0
    with open(outp, "w") as o:
        for rel in files():
            lines = open(os.path.join(REPO, "rtamt", rel)).read().split("\n")
            indoc = False
            for ln, line in enumerate(lines):
                s = line.strip()
                if s.count('"""') % 2 == 1 or s.count("'''") % 2 == 1:
                    indoc = not indoc
                    continue
                if indoc or not s or s.startswith("#") or s.startswith("import ") or s.startswith("from ") or s.startswith("raise ") \
                        or s.startswith("def ") or s.startswith("class ") or s.startswith("@") or "logging" in s or "Exception(" in s \
                        or s.startswith("print") or "__name__" in s or s.startswith("return '") or "name =" in s or "self.name" in s:
                    continue
                code = line.split(" #")[0]
                seen = set()
                for pat, rep in SUBS:
                    for m in re.finditer(pat, code):
                        # not inside a string literal (rough: even number of quotes before)
                        pre = code[:m.start()]
                        if pre.count("'") % 2 or pre.count('"') % 2:
                            continue
                        new = code[:m.start()] + rep + code[m.end():]
                        if new == code or new in seen:
                            continue
                        seen.add(new)
                        o.write(json.dumps({"k": n, "file": rel, "line": ln + 1, "old": line, "new": new, "kind": pat + "->" + rep}) + "\n")
                        n += 1
                m = STMT_DEL.match(code)
                if m:
                    o.write(json.dumps({"k": n, "file": rel, "line": ln + 1, "old": line, "new": m.group(1) + "pass", "kind": "delete"}) + "\n")
                    n += 1
    print("mutants:", n)


def make(m):
    d = os.path.join(SHM, "mut_%d" % m["k"])
    shutil.rmtree(d, ignore_errors=True)
    os.makedirs(os.path.join(d, "tests"))
    shutil.copytree(os.path.join(REPO, "rtamt"), os.path.join(d, "rtamt"), ignore=shutil.ignore_patterns("__pycache__"))
    shutil.copytree(os.path.join(REPO, "tests", "python"), os.path.join(d, "tests", "python"), ignore=shutil.ignore_patterns("__pycache__"))
    if os.path.exists(os.path.join(REPO, "tests", "__init__.py")):
        shutil.copy(os.path.join(REPO, "tests", "__init__.py"), os.path.join(d, "tests"))
    p = os.path.join(d, "rtamt", m["file"])
    lines = open(p).read().split("\n")
    assert lines[m["line"] - 1] == m["old"], (m, lines[m["line"] - 1])
    lines[m["line"] - 1] = m["new"]
    open(p, "w").write("\n".join(lines))
    return d


def run_tests(m):
    d = make(m)
    try:
        env = dict(os.environ, PYTHONPATH=d, PYTHONDONTWRITEBYTECODE="1")
        r = subprocess.run(["/venv/bin/python", "-m", "pytest", "-q", "-x", "-p", "no:cacheprovider", "--timeout=120", "tests/python"],
                           cwd=d, env=env, stdout=subprocess.PIPE, stderr=subprocess.STDOUT, universal_newlines=True, timeout=900)
        tail = r.stdout.strip().split("\n")[-1]
        m["tests"] = tail
        m["survives_tests"] = ("509 passed" in tail and "failed" not in tail and "error" not in tail)
    except subprocess.TimeoutExpired:
        m["tests"] = "timeout"; m["survives_tests"] = False
    finally:
        shutil.rmtree(d, ignore_errors=True)
    return m


def tests(inp, outp, n, seed):
    ms = [json.loads(l) for l in open(inp)]
    random.Random(seed).shuffle(ms)
    ms = ms[:n]
    done = 0
    with open(outp, "w") as o, ThreadPoolExecutor(int(os.environ.get("MUT_THREADS", "14"))) as ex:
        for m in ex.map(run_tests, ms):
            done += 1
            if m["survives_tests"]:
                o.write(json.dumps(m) + "\n"); o.flush()
            if done % 50 == 0:
                print("tested", done, flush=True)
    print("done")


def mapped(rel):
    for pre, cs in MAP:
        if rel.startswith(pre):
            return cs
    return []


def check_one(m):
    if True:
        if True:
            d = make(m)
            res = {}
            try:
                for c in mapped(m["file"])[:int(os.environ.get("MUT_MAXCHECKS", "3"))]:
                    env = dict(os.environ, VERIF_REPO=d, VERIF_NOEVIDENCE="1", VERIF_TIER="quick", PYTHONDONTWRITEBYTECODE="1")
                    try:
                        r = subprocess.run([os.path.join(VERIF, "check"), c], cwd=VERIF, env=env, stdout=subprocess.PIPE, stderr=subprocess.STDOUT,
                                           universal_newlines=True, timeout=1500)
                        res[c] = r.returncode
                    except subprocess.TimeoutExpired:
                        res[c] = "timeout"
                    if res[c] == 1:
                        break
            finally:
                shutil.rmtree(d, ignore_errors=True)
            m["checks"] = res
            m["caught"] = any(v == 1 for v in res.values())
            return m


def checks(inp, outp):
    ms = [json.loads(l) for l in open(inp)]
    with open(outp, "a") as o, ThreadPoolExecutor(int(os.environ.get("MUT_PAR", "2"))) as ex:
        for m in ex.map(check_one, ms):
            o.write(json.dumps(m) + "\n"); o.flush()
            print(m["k"], m["file"], m["line"], m["kind"], m["checks"], flush=True)


if __name__ == "__main__":
    a = sys.argv
    if a[1] == "gen":
        gen(a[2])
    elif a[1] == "tests":
        tests(a[2], a[3], int(a[4]) if len(a) > 4 else 10 ** 9, int(a[5]) if len(a) > 5 else 0)
    elif a[1] == "checks":
        checks(a[2], a[3])
