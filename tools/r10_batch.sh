#!/bin/sh
# usage: tools/r10_batch.sh <prop>...   each round-10 patch against the check of its own property; if missed, against C08 and C11
for P in "$@"; do for K in 1 2; do
  [ -f /tmp/${R:-r10}out/$P/patch$K.diff ] || continue
  echo "### $P patch$K: $(python3 -c "import json;print(json.load(open('/tmp/${R:-r10}out/$P/meta$K.json'))['summary'][:150])")"
  out=$(sh /verif/tools/try_patch.sh /tmp/${R:-r10}out/$P/patch$K.diff $P 2>&1 | grep -E "^C[0-9]+:|clauses:|apply")
  echo "$out"
  if echo "$out" | grep -q ": ok"; then
    sh /verif/tools/try_patch.sh /tmp/${R:-r10}out/$P/patch$K.diff C08 C11 2>&1 | grep -E "^C[0-9]+:|clauses:"
  fi
done; done
