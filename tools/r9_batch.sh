#!/bin/sh
# usage: tools/r9_batch.sh <prop>...   run each round-9 patch of the given properties against the check of its own property
for P in "$@"; do for K in 1 2 3; do
  [ -f /tmp/${R:-r9}out/$P/patch$K.diff ] || continue
  echo "### $P patch$K: $(python3 -c "import json;print(json.load(open('/tmp/${R:-r9}out/$P/meta$K.json'))['summary'][:150])")"
  sh /verif/tools/try_patch.sh /tmp/${R:-r9}out/$P/patch$K.diff $P 2>&1 | tail -3
done; done
