#!/bin/sh
# usage: tools/r9_try.sh <prop> <k> [checks...]   (round-9 helper: run checks against sub-agent patch k of property <prop>)
P=$1; K=$2; shift; shift
[ $# -eq 0 ] && set -- $P
sh /verif/tools/try_patch.sh /tmp/${R:-r9}out/$P/patch$K.diff "$@"
