#!/usr/bin/env python3
"""Re-confirms every kept seed on /repo's current HEAD in a scratch worktree: the patch applies, tests/python still
509 passed with it, the demonstration fails with the change and passes without.  Updates meta.json 'confirmed'."""
import glob, json, os, subprocess, sys
def sh(cmd, **kw):
    return subprocess.run(cmd, shell=True, stdout=subprocess.PIPE, stderr=subprocess.STDOUT, universal_newlines=True, **kw)
wt = "/tmp/reconfirm_wt"
sh("git -C /repo worktree remove --force %s" % wt)
assert sh("git -C /repo worktree add -q --detach %s HEAD" % wt).returncode == 0
head = sh("git -C /repo log --format=%h -1").stdout.strip()
bad = 0
try:
    for mf in sorted(glob.glob("/verif/seeded/*/meta.json")):
        d = os.path.dirname(mf); m = json.load(open(mf))
        sh("git checkout -- .", cwd=wt)
        r = sh("git apply %s/patch.diff" % d, cwd=wt)
        if r.returncode != 0:
            print(m["id"], "PATCH DOES NOT APPLY"); bad += 1; continue
        t = sh("PYTHONPATH=%s /venv/bin/python -m pytest -q -p no:cacheprovider --continue-on-collection-errors tests/python 2>&1 | tail -1" % wt, cwd=wt).stdout.strip()
        d1 = sh("PYTHONPATH=%s timeout 300 /venv/bin/python %s/demo.py" % (wt, d), cwd=wt)
        sh("git checkout -- .", cwd=wt)
        d0 = sh("PYTHONPATH=%s timeout 300 /venv/bin/python %s/demo.py" % (wt, d), cwd=wt)
        ok = "509 passed" in t and "failed" not in t and d1.returncode != 0 and d0.returncode == 0
        print(m["id"], "ok" if ok else "NOT CONFIRMED: tests=%s demo_with=%s demo_without=%s" % (t[-40:], d1.returncode, d0.returncode), flush=True)
        if ok:
            m["confirmed"] = {"repo_head": head, "tests_with_change": t, "demo_with_change_exit": d1.returncode, "demo_without_change_exit": d0.returncode,
                              "ran": ["git apply patch.diff (scratch worktree of /repo HEAD)", "pytest tests/python", "python demo.py (with / without change)"]}
            json.dump(m, open(mf, "w"), indent=1)
        else:
            bad += 1
finally:
    sh("git -C /repo worktree remove --force %s" % wt)
sys.exit(1 if bad else 0)
