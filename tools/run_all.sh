#!/bin/sh
# usage: tools/run_all.sh [tier] seed...   runs every check once per seed; prints one line per (check, seed)
cd "$(dirname "$0")/.." || exit 2
TIER="$1"; shift
for seed in "$@"; do
  for id in C01 C02 C03 C04 C05 C06 C07 C08 C09 C10 C11 C12 C13 C14 C15 C16 C17 C18 C19 C20; do
    start=$(date +%s)
    out=$(VERIF_SEED=$seed VERIF_TIER=$TIER ./check $id 2>&1); rc=$?
    end=$(date +%s)
    echo "seed=$seed $id rc=$rc $((end-start))s $(echo "$out" | grep -E ': ok|violation\(s\)|MACHINERY' | tail -1 | cut -c1-150)"
    if [ $rc -ne 0 ]; then echo "$out" | grep -E "clause=|clauses:|MACHINERY" | head -8; fi
  done
done
