#!/bin/sh
# negative controls: changes that keep every property; no check may raise an alarm on them
# usage: tools/run_benign.sh [patch name ...]   (default: all of benign/*.diff), prints one line per (patch, check)
cd "$(dirname "$0")/.." || exit 2
[ $# -eq 0 ] && set -- $(ls benign/*.diff | xargs -n1 basename | sed 's/\.diff$//')
for b in "$@"; do
  WT=/tmp/benign_$$_$b
  git -C /repo worktree add -q --detach "$WT" HEAD || exit 2
  ( cd "$WT" && git apply /verif/benign/$b.diff ) || { echo "$b: patch does not apply"; git -C /repo worktree remove --force "$WT"; continue; }
  t=$(cd "$WT" && PYTHONPATH="$WT" /venv/bin/python -m pytest -q -p no:cacheprovider --continue-on-collection-errors tests/python 2>&1 | tail -1)
  echo "== $b: tests/python: $t"
  for id in C01 C02 C03 C04 C05 C06 C07 C08 C09 C10 C11 C12 C13 C14 C15 C16 C17 C18 C19 C20; do
    out=$(VERIF_REPO="$WT" VERIF_NOEVIDENCE=1 ./check $id 2>&1); rc=$?
    echo "$b $id rc=$rc $(echo "$out" | grep -E 'clauses:|MACHINERY' | head -1 | cut -c1-120)"
  done
  git -C /repo worktree remove --force "$WT"
done
