#!/bin/sh
# offline setup: nothing to fetch or build; parse every specification module and byte-compile the harness
cd "$(dirname "$0")/.." || exit 1
mkdir -p build evidence replays
for m in Ext Sem Online Offline Past Units Norm Dense DenseOn DenseOnMC DenseOnFMC DenseOff DenseOffMC Explain ExplainMC Inputs LangMC SupportMC Lang Rtamt SemMC UnitsMC TraceDt TraceCt TraceLang TraceOp; do
  java -cp /opt/veriftools/tla/tla2tools.jar:/opt/veriftools/tla/CommunityModules-deps.jar -DTLA-Library=spec tla2sany.SANY spec/$m.tla > build/sany_$m.log 2>&1 || { echo "SANY failed on $m"; tail -5 build/sany_$m.log; exit 1; }
  if grep -q -i "error\|Multiply-defined\|Unknown operator\|requires [0-9]* argument" build/sany_$m.log; then echo "SANY reported errors on $m"; tail -8 build/sany_$m.log; exit 1; fi
done
/venv/bin/python -m compileall -q harness checks >/dev/null || exit 1
echo setup ok
