#!/bin/sh
# usage: tools/try_patch.sh <patch.diff> <check id>...   applies the patch to /repo, runs the checks, reverts
P="$1"; shift
cd /repo || exit 2
if [ -n "$(git status --porcelain --untracked-files=no)" ]; then echo "repo dirty"; exit 2; fi
git apply "$P" || { echo "patch does not apply"; exit 2; }
for id in "$@"; do
  echo "== $id with $(basename $P)"
  ( cd /verif && ./check "$id" 2>&1 | grep -E "clauses:|: ok|MACHINERY|violation\(s\)" | cut -c1-220 | head -6 ; )
done
cd /repo && git checkout -- . 
