#!/bin/sh
# usage: tools/try_patch.sh <patch.diff> <check id>...
# applies the patch to a scratch worktree of /repo's HEAD, runs the checks against it (VERIF_REPO), removes the worktree.
# (equivalent to `git -C /repo apply` + `git -C /repo checkout -- .`, but does not disturb runs that use /repo meanwhile)
P="$1"; shift
WT=/tmp/try_patch_$$
git -C /repo worktree add -q --detach "$WT" HEAD || exit 2
( cd "$WT" && git apply "$P" ) || { echo "patch does not apply"; git -C /repo worktree remove --force "$WT"; exit 2; }
for id in "$@"; do
  echo "== $id with $(basename $(dirname $P))/$(basename $P)"
  ( cd /verif && VERIF_REPO="$WT" VERIF_NOEVIDENCE=1 ./check "$id" 2>&1 | grep -E "clauses:|: ok|MACHINERY|violation\(s\)" | cut -c1-220 | head -6 ; )
done
git -C /repo worktree remove --force "$WT"
